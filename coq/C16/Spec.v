(* C16 — the specification: a naive STACK OF MAPS, one map per context, the
   innermost context first.  Nothing here looks at per-name stacks or at
   context indices: lookups walk the contexts from the innermost outwards,
   scopes are prefixes of the context list.

   The boolean ORACLE ([oracle_clauses]) compares what the implementation
   returned after an operation with this specification; it never looks at
   the MODEL. *)
From Yv Require Import Common.Base C16.Model.

(* ---- one context: its kind (with the positional parameters) and a map ---- *)

Record sctx := mkSC { sk : ctx; sv : list (name * var) }.

(* head = innermost (most recently pushed) context, last = base context *)
Definition sstate := list sctx.

Definition sinit : sstate := [mkSC (CRegular []) []].

Definition del_assoc {A} (n : name) (l : list (name * A)) : list (name * A) :=
  filter (fun p => negb (str_eqb (fst p) n)) l.

(* ---- lookup: the innermost context that has the name wins ------------------ *)

Fixpoint slookup (a : sstate) (n : name) : option var :=
  match a with
  | [] => None
  | c :: rest => match assoc n (sv c) with
                 | Some v => Some v
                 | None => slookup rest n
                 end
  end.

(* The contexts a scope covers (innermost first) and the contexts below:
   Global   = everything;
   Local    = the volatile contexts on top and the innermost regular context;
   Volatile = only the volatile contexts on top. *)
Fixpoint split_scope (sc : scope) (a : sstate) : sstate * sstate :=
  match sc with
  | SGlobal => (a, [])
  | _ =>
      match a with
      | [] => ([], [])
      | c :: rest =>
          if is_regular (sk c)
          then match sc with SLocal => ([c], rest) | _ => ([], a) end
          else let (u, l) := split_scope sc rest in (c :: u, l)
      end
  end.

Definition in_scope (sc : scope) (a : sstate) : sstate := fst (split_scope sc a).

Definition s_get_scoped (a : sstate) (n : name) (sc : scope) : option var :=
  slookup (in_scope sc a) n.

(* ---- get_or_new ---------------------------------------------------------------- *)

(* Global / Local: walk outwards.  A variable met in a volatile context is
   taken out and carried along (the innermost one is kept); the first regular
   context that has the name receives the carried variable; if none has, the
   base context (Global) or the innermost regular context (Local) gets the
   carried variable or a fresh one. *)
Fixpoint s_gon (local : bool) (carried : option var) (n : name) (a : sstate) : sstate :=
  match a with
  | [] => []
  | c :: rest =>
      if is_regular (sk c) then
        match assoc n (sv c) with
        | Some v => mkSC (sk c) (set_assoc n (or_var carried v) (sv c)) :: rest
        | None =>
            if local || is_nil rest
            then mkSC (sk c) (set_assoc n (or_var carried default_var) (sv c)) :: rest
            else c :: s_gon local carried n rest
        end
      else
        match assoc n (sv c) with
        | Some v => mkSC (sk c) (del_assoc n (sv c)) :: s_gon local (Some (or_var carried v)) n rest
        | None => c :: s_gon local carried n rest
        end
  end.

(* Volatile: the innermost context must be volatile; it gets a copy of the
   visible variable (or a fresh one) unless it already has the name. *)
Definition s_gon_volatile (n : name) (a : sstate) : option sstate :=
  match a with
  | c :: rest =>
      if is_regular (sk c) then None
      else match assoc n (sv c) with
           | Some _ => Some a
           | None => Some (mkSC (sk c) (set_assoc n (or_var (slookup rest n) default_var) (sv c)) :: rest)
           end
  | [] => None
  end.

Definition s_get_or_new (n : name) (sc : scope) (a : sstate) : option sstate :=
  match sc with
  | SGlobal => Some (s_gon false None n a)
  | SLocal => Some (s_gon true None n a)
  | SVolatile => s_gon_volatile n a
  end.

(* change the visible variable (the one in the innermost context that has it) *)
Fixpoint s_update (n : name) (v' : var) (a : sstate) : sstate :=
  match a with
  | [] => []
  | c :: rest => match assoc n (sv c) with
                 | Some _ => mkSC (sk c) (set_assoc n v' (sv c)) :: rest
                 | None => c :: s_update n v' rest
                 end
  end.

(* ---- unset ------------------------------------------------------------------------ *)

(* the innermost read-only variable of that name in these contexts *)
Fixpoint s_first_ro (n : name) (a : sstate) : option N :=
  match a with
  | [] => None
  | c :: rest => match assoc n (sv c) with
                 | Some v => match vro v with Some r => Some r | None => s_first_ro n rest end
                 | None => s_first_ro n rest
                 end
  end.

Definition s_del (n : name) (c : sctx) : sctx := mkSC (sk c) (del_assoc n (sv c)).

(* ---- positional parameters: those of the innermost regular context ---------------- *)

Fixpoint s_params (a : sstate) : option (list str) :=
  match a with
  | [] => None
  | c :: rest => match sk c with CRegular ps => Some ps | CVolatile => s_params rest end
  end.

Fixpoint s_set_params (ps : list str) (a : sstate) : option sstate :=
  match a with
  | [] => None
  | c :: rest =>
      if is_regular (sk c) then Some (mkSC (CRegular ps) (sv c) :: rest)
      else match s_set_params ps rest with
           | Some rest' => Some (c :: rest')
           | None => None
           end
  end.

(* ---- one operation ------------------------------------------------------------------ *)

Definition sstep (a : sstate) (o : op) : option (sstate * result) :=
  match o with
  | OPush c => Some (mkSC c [] :: a, RUnit)
  | OPop => match a with
            | _ :: (_ :: _) as rest => Some (rest, RUnit)
            | _ => None                                   (* the base context is never popped *)
            end
  | OGetOrNew n sc ms =>
      match s_get_or_new n sc a with
      | None => None
      | Some a1 =>
          match slookup a1 n with
          | None => None
          | Some v => let (v', rs) := mutate_all v ms in Some (s_update n v' a1, RMuts rs)
          end
      end
  | OUnset n sc =>
      let (u, l) := split_scope sc a in
      match s_first_ro n u with
      | Some r => Some (a, RUnsetErr r)
      | None => Some (map (s_del n) u ++ l, RUnset (slookup u n))
      end
  | OSetParams ps =>
      match s_set_params ps a with
      | Some a' => Some (a', RUnit)
      | None => None
      end
  end.

Fixpoint srun (a : sstate) (ops : list op) : option sstate :=
  match ops with
  | [] => Some a
  | o :: ops => match sstep a o with
                | Some (a', _) => srun a' ops
                | None => None
                end
  end.

(* ---- what the public API shows ---------------------------------------------------------- *)

(* the variables of the environment of an executed program: exactly the
   visible exported variables that have a value (names with '=' and strings
   with NUL cannot be passed) *)
Definition s_env (names : list name) (a : sstate) : list str :=
  flat_map (fun n => match slookup a n with
                     | Some v => match env_entry n v with Some r => [r] | None => [] end
                     | None => []
                     end) names.

(* ---- equality tests ------------------------------------------------------------------------ *)

Definition value_eqb (x y : value) : bool :=
  match x, y with
  | Scalar a, Scalar b => str_eqb a b
  | Array a, Array b => list_eqb str_eqb a b
  | _, _ => false
  end.

Definition var_eqb (v w : var) : bool :=
  option_eqb value_eqb (vval v) (vval w) && option_eqb N.eqb (vloc v) (vloc w)
  && Bool.eqb (vexp v) (vexp w) && option_eqb N.eqb (vro v) (vro w)
  && Bool.eqb (vquirk v) (vquirk w).

Definition mres_eqb (x y : mres) : bool :=
  match x, y with
  | AOk a b, AOk c d => option_eqb value_eqb a c && option_eqb N.eqb b d
  | AErr a, AErr b => N.eqb a b
  | MUnit, MUnit => true
  | _, _ => false
  end.

Definition result_eqb (x y : result) : bool :=
  match x, y with
  | RUnit, RUnit => true
  | RMuts a, RMuts b => list_eqb mres_eqb a b
  | RUnset a, RUnset b => option_eqb var_eqb a b
  | RUnsetErr a, RUnsetErr b => N.eqb a b
  | _, _ => false
  end.

Definition nv_eqb (p q : name * var) : bool := str_eqb (fst p) (fst q) && var_eqb (snd p) (snd q).

Fixpoint nodupb {A} (eqb : A -> A -> bool) (l : list A) : bool :=
  match l with
  | [] => true
  | x :: l => negb (existsb (eqb x) l) && nodupb eqb l
  end.

(* ---- observations and the oracle ---------------------------------------------------------- *)

(* What the harness reads through the public API after an operation, for the
   names in play (in their order). *)
Record obs := mkObs {
  o_res : option result;                      (* what the operation returned; None = it panicked *)
  o_get : list (option var);                  (* get(n) *)
  o_scoped : list (option var * option var * option var);
                                              (* get_scoped(n, Global / Local / Volatile) *)
  o_iter : list (name * var) * list (name * var) * list (name * var);
                                              (* iter(Global / Local / Volatile) *)
  o_env : list str;                           (* env_c_strings() *)
  o_params : list str                         (* positional_params().values *)
}.

(* [l] lists exactly the pairs (n, f n) for the names with [f n <> None],
   each once *)
Definition exactly (names : list name) (f : name -> option var) (l : list (name * var)) : bool :=
  nodupb str_eqb (map fst l)
  && forallb (fun p => existsb (str_eqb (fst p)) names
                       && option_eqb var_eqb (f (fst p)) (Some (snd p))) l
  && forallb (fun n => match f n with
                       | Some v => existsb (nv_eqb (n, v)) l
                       | None => true
                       end) names.

Definition same_strings (l1 l2 : list str) : bool :=
  nodupb str_eqb l1
  && forallb (fun x => existsb (str_eqb x) l2) l1
  && forallb (fun x => existsb (str_eqb x) l1) l2.

Fixpoint first_false (k : N) (l : list bool) : option N :=
  match l with
  | [] => None
  | true :: l => first_false (N.succ k) l
  | false :: _ => Some k
  end.

(* clause k failing gives verdict 2+k.  [prev] is the specification state
   before the operation, [a] after it, [r] what the specification says the
   operation returns. *)
Definition oracle_clauses (names : list name) (a : sstate) (r : result) (ob : obs) : list bool :=
  [ (* 0 *) match o_res ob with Some _ => true | None => false end;
    (* 1 *) match o_res ob with Some r' => result_eqb r r' | None => true end;
    (* 2 *) list_eqb (option_eqb var_eqb) (o_get ob) (map (slookup a) names);
    (* 3 *) list_eqb (fun x y => match x, y with
                                 | (g, l, v), (g', l', v') =>
                                     option_eqb var_eqb g g' && option_eqb var_eqb l l'
                                     && option_eqb var_eqb v v'
                                 end)
                     (o_scoped ob)
                     (map (fun n => (s_get_scoped a n SGlobal, s_get_scoped a n SLocal,
                                     s_get_scoped a n SVolatile)) names);
    (* 4 *) match o_iter ob with
            | (g, l, v) =>
                exactly names (fun n => s_get_scoped a n SGlobal) g
                && exactly names (fun n => s_get_scoped a n SLocal) l
                && exactly names (fun n => s_get_scoped a n SVolatile) v
            end;
    (* 5 *) same_strings (o_env ob) (s_env names a);
    (* 6 *) option_eqb (list_eqb str_eqb) (Some (o_params ob)) (s_params a)
  ].

Definition oracle (names : list name) (a : sstate) (r : result) (ob : obs) : bool :=
  match first_false 0 (oracle_clauses names a r ob) with None => true | Some _ => false end.

(* ---- the invariant of the model and the abstraction relation ------------------------------ *)

(* equal except for the export flag *)
Definition same_attrs (v w : var) : Prop :=
  vval v = vval w /\ vloc v = vloc w /\ vro v = vro w.

(* A per-name stack (top first) is normalised w.r.t. the contexts [cs] and the
   bound [b] when its context indices are strictly descending and below [b],
   and every entry that lives in a volatile context directly above a
   read-only entry is a copy of that entry (up to the export flag). *)
Fixpoint stack_ok (cs : list ctx) (b : nat) (st : list vic) : Prop :=
  match st with
  | [] => True
  | (v, i) :: rest =>
      i < b /\ stack_ok cs i rest /\
      match rest with
      | (w, _) :: _ => nth_error cs i = Some CVolatile -> is_ro w = true -> same_attrs v w
      | [] => True
      end
  end.

(* the invariant of [VariableSet] *)
Record Inv (s : vset) : Prop := {
  inv_keys : NoDup (map fst (vars s));
  inv_base : exists ps rest, ctxs s = CRegular ps :: rest;
  inv_stacks : forall n, stack_ok (ctxs s) (length (ctxs s)) (stack_of s n)
}.

(* The per-name stack a stack of maps induces: the contexts that have the
   name, innermost first, each with its index counted from the base. *)
Fixpoint proj (a : sstate) (n : name) : list vic :=
  match a with
  | [] => []
  | c :: rest => match assoc n (sv c) with
                 | Some v => (v, length rest) :: proj rest n
                 | None => proj rest n
                 end
  end.

(* the contexts in the order of the Rust vector (base first) *)
Definition kinds (a : sstate) : list ctx := rev (map sk a).

Definition Abs (s : vset) (a : sstate) : Prop :=
  ctxs s = kinds a /\ forall n, stack_of s n = proj a n.

(* ---- scripts on the stack of maps (the caller rules are those of Model.compile) ------------- *)

Definition s_obs_vars (names : list name) (a : sstate) : pobs :=
  PVars (map (fun n => option_map var_view (slookup a n)) names)
        (match s_params a with Some ps => ps | None => [] end).

Definition s_obs_env (names : list name) (a : sstate) : pobs := PEnv (s_env names a).

Definition srun_script (names : list name) (cs : list cmd) : list pobs * ending * sstate :=
  irun sstate sstep (s_obs_vars names) (s_obs_env names) (compile_script cs) sinit.

Definition view_eqb (x y : option value * bool * bool) : bool :=
  match x, y with
  | (v, e, r), (v', e', r') => option_eqb value_eqb v v' && Bool.eqb e e' && Bool.eqb r r'
  end.

Definition same_strings_set (l1 l2 : list str) : bool :=
  forallb (fun x => existsb (str_eqb x) l2) l1 && forallb (fun x => existsb (str_eqb x) l1) l2
  && Nat.eqb (length l1) (length l2).

Definition pobs_eqb (x y : pobs) : bool :=
  match x, y with
  | PVars vs ps, PVars vs' ps' =>
      list_eqb (option_eqb view_eqb) vs vs' && list_eqb str_eqb ps ps'
  | PEnv e, PEnv e' => same_strings_set e e'
  | _, _ => false
  end.

(* ---- notions used in the statements about scripts ------------------------------------------- *)

(* the command never uses global scope on the name [n]: no plain or
   special-built-in assignment, no typeset -g, export, readonly, unset, read of [n] *)
Fixpoint cmd_safe (n : name) (c : cmd) : bool :=
  match c with
  | CAssign asgs => forallb (fun p => negb (str_eqb (fst p) n)) asgs
  | CSpecial asgs => forallb (fun p => negb (str_eqb (fst p) n)) asgs
  | CProbe _ | CExec _ | CSetParams _ => true
  | CCall _ body _ => forallb (cmd_safe n) body
  | CTypeset _ g _ _ m _ => negb (g && str_eqb m n)
  | CExport m _ | CReadonly m _ | CUnset m => negb (str_eqb m n)
  | CRead _ m _ => negb (str_eqb m n)
  | CFor m _ body => negb (str_eqb m n) && forallb (cmd_safe n) body
  | CReturn => true
  end.

(* what the two observers show is the same (environments as sets) *)
Definition pobs_equiv (x y : pobs) : Prop :=
  match x, y with
  | PVars v p, PVars v' p' => v = v' /\ p = p'
  | PEnv e, PEnv e' => (forall z, In z e <-> In z e') /\ NoDup e /\ NoDup e'
  | _, _ => False
  end.

(* the topmost context is a volatile one (what Scope::Volatile requires of get_or_new) *)
Definition top_is_volatile (cs : list ctx) : bool :=
  match nth_error cs (length cs - 1) with Some CVolatile => true | _ => false end.

(* ---- notions used in the statements about the environment ------------------------------- *)

(* splitting at every [c] *)
Fixpoint split_on (c : N) (acc : str) (x : str) : list str :=
  match x with
  | [] => [rev acc]
  | d :: x => if N.eqb d c then rev acc :: split_on c [] x else split_on c (d :: acc) x
  end.

(* every environment in the trace is that of a state satisfying the invariant *)
Definition env_ok (names : list name) (p : pobs) : Prop :=
  match p with
  | PEnv env =>
      exists s1, Inv s1 /\ env = env_of_names names (env_c_strings s1) /\
                 forall x, In x (env_c_strings s1) <->
                           exists n v, get s1 n = Some v /\ env_entry n v = Some x
  | PVars _ _ => True
  end.

(* the last assignment to [n] among the temporaries *)
Definition last_temp (n : name) (temps : list (name * value)) : option value := assoc n (rev temps).
