(* C16 — frame lemmas: which contexts an operation can touch; the lifetime of
   temporary assignments, locals and positional parameters under the caller
   rules ([Model.compile]). *)
From Yv Require Import Common.Base C16.Model C16.Spec C16.ProofsBase C16.ProofsAbs C16.ProofsProps.
From Coq Require Import Lia.

(* the lowest context index an operation can modify *)
Definition gon_index (sc : scope) (cs : list ctx) : option nat :=
  match sc with
  | SGlobal => Some 0
  | SLocal => topreg cs
  | SVolatile => Some (length cs - 1)
  end.

Definition touch_index (s : vset) (o : op) : option nat :=
  match o with
  | OPush _ => Some (length (ctxs s))
  | OPop => Some (length (ctxs s) - 1)
  | OSetParams _ => topreg (ctxs s)
  | OGetOrNew _ sc _ => gon_index sc (ctxs s)
  | OUnset _ sc => index_of_context sc (ctxs s)
  end.

Definition op_name (o : op) : option name :=
  match o with
  | OGetOrNew n _ _ | OUnset n _ => Some n
  | _ => None
  end.

(* ---- per-name stacks ---------------------------------------------------------- *)

Lemma gon_loop_low cs ci removed st st1 :
  gon_loop cs ci removed st = Some st1 ->
  forall i, i < ci -> lookup_i st1 i = lookup_i st i.
Proof.
  revert removed. induction st as [|[v j] rest IH]; intros removed; cbn [gon_loop].
  - intros [= <-] i Hi. rewrite lookup_i_tail by lia. reflexivity.
  - destruct (j <? ci) eqn:E.
    + intros [= <-] i Hi. rewrite lookup_i_tail by lia. reflexivity.
    + apply Nat.ltb_ge in E. destruct (nth_error cs j) as [[ps|]|]; [| |discriminate].
      * intros [= <-] i Hi. rewrite !lookup_i_tail by lia. reflexivity.
      * intros H i Hi. rewrite (IH _ H i Hi). rewrite lookup_i_tail by lia. reflexivity.
Qed.

Lemma gon_loop_head cs ci removed st v j rest1 :
  gon_loop cs ci removed st = Some ((v, j) :: rest1) -> ci <= j.
Proof.
  revert removed. induction st as [|[v0 j0] rest IH]; intros removed; cbn [gon_loop].
  - intros [= _ <- _]. lia.
  - destruct (j0 <? ci) eqn:E.
    + intros [= _ <- _]. lia.
    + apply Nat.ltb_ge in E. destruct (nth_error cs j0) as [[ps|]|]; [| |discriminate].
      * intros [= _ <- _]. exact E.
      * apply IH.
Qed.

Lemma gon_stack_low cs sc st v j rest1 t :
  stack_ok cs (length cs) st ->
  get_or_new_stack cs sc st = Some ((v, j) :: rest1) ->
  gon_index sc cs = Some t ->
  t <= j /\ forall i, i < t -> lookup_i ((v, j) :: rest1) i = lookup_i st i.
Proof.
  intros Hok. destruct sc; cbn [get_or_new_stack gon_index].
  - intros H [= <-]. split; [lia|]. intros i Hi. lia.
  - destruct (topreg cs) as [ci|]; [|discriminate]. intros H [= <-].
    split; [eapply gon_loop_head; exact H|eapply gon_loop_low; exact H].
  - unfold gon_volatile. destruct cs as [|k0 ks] eqn:Ek; [discriminate|]. rewrite <- Ek in *.
    destruct (nth_error cs (length cs - 1)) as [[|]|]; try discriminate.
    destruct st as [|[v0 j0] rest].
    + intros [= <- <- <-] [= <-]. split; [lia|]. intros i Hi. rewrite lookup_i_tail by lia. reflexivity.
    + destruct (j0 =? length cs - 1) eqn:Ej.
      * apply Nat.eqb_eq in Ej. intros [= <- <- <-] [= <-]. split; [lia|]. reflexivity.
      * intros [= <- <- <-] [= <-]. split; [lia|].
        intros i Hi. rewrite lookup_i_tail by lia. reflexivity.
Qed.

Lemma span_ge_upper i st p : In p (fst (span_ge i st)) -> i <= snd p.
Proof.
  induction st as [|[v j] rest IH]; cbn [span_ge]; [intros []|].
  destruct (i <=? j) eqn:E; [|intros []].
  destruct (span_ge i rest) as [u l]; cbn [fst] in *.
  intros [<-|H]; [apply Nat.leb_le in E; exact E|exact (IH H)].
Qed.

Lemma lookup_i_none_ge u i t : (forall p, In p u -> t <= snd p) -> i < t -> lookup_i u i = None.
Proof.
  intros H Hi. destruct (lookup_i u i) as [p|] eqn:E; [|reflexivity].
  apply lookup_i_some in E. destruct E as [Hin <-]. specialize (H _ Hin). lia.
Qed.

(* ---- contexts --------------------------------------------------------------------- *)

Lemma removelast_firstn {A} (l : list A) : removelast l = firstn (length l - 1) l.
Proof.
  induction l as [|x l IH]; [reflexivity|].
  destruct l as [|y l]; [reflexivity|].
  cbn [removelast length] in *. rewrite IH.
  replace (S (S (length l)) - 1) with (S (S (length l) - 1)) by lia. reflexivity.
Qed.

Lemma firstn_firstn_le {A} (l : list A) i j : i <= j -> firstn i (firstn j l) = firstn i l.
Proof. intros H. rewrite firstn_firstn. f_equal. lia. Qed.

Lemma firstn_set_nth {A} i t (x : A) l : t <= i -> firstn t (set_nth i x l) = firstn t l.
Proof.
  revert i t. induction l as [|y l IH]; intros [|i] [|t] H; cbn; try reflexivity; try lia.
  f_equal. apply IH. lia.
Qed.

Lemma firstn_app_le {A} (l l2 : list A) t : t <= length l -> firstn t (l ++ l2) = firstn t l.
Proof.
  intros H. rewrite firstn_app. replace (t - length l) with 0 by lia.
  cbn. apply app_nil_r.
Qed.

Lemma topreg_lt cs i : topreg cs = Some i -> i < length cs.
Proof. intros H. apply topreg_spec in H. tauto. Qed.

(* ---- one step ---------------------------------------------------------------------- *)

Lemma step_touch s o s' r t :
  Inv s -> step s o = Some (s', r) -> touch_index s o = Some t ->
  t <= length (ctxs s') /\
  firstn t (ctxs s') = firstn t (ctxs s) /\
  forall m i, i < t -> entry s' m i = entry s m i.
Proof.
  intros HI Hstep Ht. pose proof HI as [Hk Hb Hs].
  destruct o as [c| |n sc ms|n sc|ps]; cbn [touch_index] in Ht.
  - cbn [step] in Hstep. injection Hstep as <- <-. injection Ht as <-. cbn [ctxs].
    rewrite app_length. split; [lia|]. split; [apply firstn_app_le; lia|]. reflexivity.
  - destruct (pop_lemma _ _ _ HI Hstep) as (Hc & Hlow & _). injection Ht as <-.
    rewrite Hc, removelast_length. split; [lia|]. split.
    + rewrite removelast_firstn. apply firstn_firstn_le. lia.
    + intros m i Hi. apply Hlow. rewrite Hc, removelast_length. exact Hi.
  - cbn [step] in Hstep.
    destruct (get_or_new_stack (ctxs s) sc (stack_of s n)) as [[|[v j] rest]|] eqn:Eg; try discriminate.
    destruct (mutate_all v ms) as [v' rs]. injection Hstep as <- <-. cbn [with_stack ctxs].
    destruct (gon_stack_low _ _ _ _ _ _ _ (Hs n) Eg Ht) as [Hj Hlow].
    split.
    { destruct sc; cbn [gon_index] in Ht.
      - injection Ht as <-. lia.
      - apply topreg_lt in Ht. lia.
      - injection Ht as <-. lia. }
    split; [reflexivity|].
    intros m i Hi. destruct (str_eq_dec m n) as [->|Hne].
    + rewrite !entry_lookup_i, stack_of_with_same.
      rewrite lookup_i_tail by lia. rewrite <- (Hlow i Hi). rewrite lookup_i_tail by lia. reflexivity.
    + unfold entry. rewrite stack_of_with_other by exact Hne. reflexivity.
  - cbn [step] in Hstep.
    assert (Hle : t <= length (ctxs s)).
    { destruct sc; cbn [index_of_context] in Ht.
      - injection Ht as <-. lia.
      - apply topreg_lt in Ht. lia.
      - destruct (topreg (ctxs s)) as [i0|] eqn:E; [|discriminate]. injection Ht as <-.
        apply topreg_lt in E. lia. }
    destruct (assoc n (vars s)) as [st|] eqn:Ea; [|injection Hstep as <- <-; auto].
    rewrite Ht in Hstep.
    pose proof (span_ge_app t st) as Happ. pose proof (span_ge_upper t st) as Hup.
    destruct (span_ge t st) as [u l]. cbn [fst snd] in *.
    destruct (first_ro u); injection Hstep as <- <-; [auto|]. cbn [with_stack ctxs].
    split; [exact Hle|]. split; [reflexivity|].
    intros m i Hi. destruct (str_eq_dec m n) as [->|Hne].
    + rewrite !entry_lookup_i, stack_of_with_same, (stack_of_assoc _ _ _ Ea), <- Happ, lookup_i_app.
      rewrite (lookup_i_none_ge u i t Hup Hi). reflexivity.
    + unfold entry. rewrite stack_of_with_other by exact Hne. reflexivity.
  - cbn [step] in Hstep. rewrite Ht in Hstep. injection Hstep as <- <-. cbn [ctxs].
    rewrite set_nth_length. split; [apply topreg_lt in Ht; lia|].
    split; [apply firstn_set_nth; lia|]. reflexivity.
Qed.

(* an operation on another name leaves the name alone *)
Lemma step_other_name s o s' r n m :
  step s o = Some (s', r) -> op_name o = Some m -> m <> n ->
  ctxs s' = ctxs s /\ stack_of s' n = stack_of s n.
Proof.
  intros Hstep Hn Hne. destruct o as [c| |n' sc ms|n' sc|ps]; cbn in Hn; try discriminate;
    injection Hn as ->; cbn [step] in Hstep.
  - destruct (get_or_new_stack (ctxs s) sc (stack_of s m)) as [[|[v j] rest]|]; try discriminate.
    destruct (mutate_all v ms) as [v' rs]. injection Hstep as <- <-.
    split; [reflexivity|]. apply stack_of_with_other. congruence.
  - destruct (assoc m (vars s)) as [st|]; [|injection Hstep as <- <-; auto].
    destruct (index_of_context sc (ctxs s)); [|discriminate].
    destruct (span_ge _ st) as [u l]. destruct (first_ro u); injection Hstep as <- <-; [auto|].
    split; [reflexivity|]. apply stack_of_with_other. congruence.
Qed.

(* two states agree on name [n] and on the contexts *)
Lemma get_of_stack s s' n : stack_of s' n = stack_of s n -> get s' n = get s n.
Proof. unfold get. intros ->. reflexivity. Qed.

Lemma stack_ext cs b st st' :
  stack_ok cs b st -> stack_ok cs b st' ->
  (forall i, lookup_i st' i = lookup_i st i) -> st' = st.
Proof.
  revert b st'. induction st as [|[v j] rest IH]; intros b st' Hok Hok' H.
  - destruct st' as [|[v' j'] rest']; [reflexivity|].
    specialize (H j'). rewrite lookup_i_head in H. discriminate.
  - destruct st' as [|[v' j'] rest'].
    { specialize (H j). rewrite lookup_i_head in H. discriminate. }
    cbn in Hok, Hok'. destruct Hok as (H1 & H2 & _). destruct Hok' as (H1' & H2' & _).
    assert (j' = j).
    { destruct (Nat.lt_trichotomy j' j) as [Hlt|[Heq|Hgt]]; [|exact Heq|].
      - pose proof (H j) as Hj. rewrite lookup_i_head, lookup_i_tail in Hj by lia.
        rewrite (lookup_i_ge _ _ _ j H2') in Hj by lia. discriminate.
      - pose proof (H j') as Hj. rewrite lookup_i_head, lookup_i_tail in Hj by lia.
        rewrite (lookup_i_ge _ _ _ j' H2) in Hj by lia. discriminate. }
    subst j'. pose proof (H j) as Hj. rewrite !lookup_i_head in Hj. injection Hj as ->.
    f_equal. apply (IH j rest'); [exact H2|exact H2'|].
    intros i. destruct (Nat.eq_dec i j) as [->|Hne].
    + rewrite (lookup_i_ge _ _ _ j H2), (lookup_i_ge _ _ _ j H2') by lia. reflexivity.
    + specialize (H i). rewrite !lookup_i_tail in H by exact Hne. exact H.
Qed.

Lemma lookup_of_entry st st' :
  (forall i, match lookup_i st' i with Some (v, _) => Some v | None => None end =
             match lookup_i st i with Some (v, _) => Some v | None => None end) ->
  forall i, lookup_i st' i = lookup_i st i.
Proof.
  intros H i. specialize (H i).
  destruct (lookup_i st' i) as [[v' j']|] eqn:E'; destruct (lookup_i st i) as [[v j]|] eqn:E;
    try discriminate; [|reflexivity].
  apply lookup_i_some in E'. apply lookup_i_some in E. cbn in *. destruct E' as [_ ->]. destruct E as [_ ->].
  injection H as ->. reflexivity.
Qed.

Lemma stack_of_entries s s' n :
  Inv s -> Inv s' -> ctxs s' = ctxs s ->
  (forall i, entry s' n i = entry s n i) -> stack_of s' n = stack_of s n.
Proof.
  intros [_ _ Hs] [_ _ Hs'] Hc H.
  apply (stack_ext (ctxs s) (length (ctxs s))); [apply Hs|rewrite <- Hc; apply Hs'|].
  apply lookup_of_entry. intros i. specialize (H i). rewrite !entry_lookup_i in H. exact H.
Qed.

(* ==== temporary assignments before a regular built-in or an external utility ========= *)

Section Lifetime.
Variable ov oe : vset -> pobs.
Notation mrun := (irun vset step ov oe).

Lemma step_gon_ctxs s n sc ms s' r : step s (OGetOrNew n sc ms) = Some (s', r) -> ctxs s' = ctxs s.
Proof.
  cbn [step]. destruct (get_or_new_stack _ _ _) as [[|[v j] rest]|]; try discriminate.
  destruct (mutate_all v ms). intros [= <- <-]. reflexivity.
Qed.

Lemma step_unset_ctxs s n sc s' r : step s (OUnset n sc) = Some (s', r) -> ctxs s' = ctxs s.
Proof.
  cbn [step]. destruct (assoc n (vars s)) as [st|]; [|intros [= <- <-]; reflexivity].
  destruct (index_of_context sc (ctxs s)); [|discriminate].
  destruct (span_ge _ _) as [u0 l0]. destruct (first_ro u0); intros [= <- <-]; reflexivity.
Qed.

Lemma temps_phase temps : forall l s t s' k,
  Inv s -> length (ctxs s) = S k ->
  mrun (temp_volatile temps ++ l) s = (t, Finished, s') ->
  exists s1 t1, Inv s1 /\ ctxs s1 = ctxs s /\
                (forall m i, i < k -> entry s1 m i = entry s m i) /\
                mrun l s1 = (t1, Finished, s').
Proof.
  induction temps as [|[n v] temps IH]; intros l s t s' k HI Hlen; cbn [temp_volatile map app].
  - intros H. exists s, t. auto.
  - cbn [irun fst snd].
    destruct (step s (OGetOrNew n SVolatile [MAssign v (Some 0%N); MExport true])) as [[s1 r]|] eqn:Es;
      [|discriminate].
    destruct (is_err r); [discriminate|].
    intros H.
    pose proof (inv_step _ _ _ _ HI Es) as HI1.
    pose proof (step_gon_ctxs _ _ _ _ _ _ Es) as Hc1.
    assert (Ht : touch_index s (OGetOrNew n SVolatile [MAssign v (Some 0%N); MExport true]) = Some k).
    { cbn. rewrite Hlen. f_equal. lia. }
    destruct (step_touch _ _ _ _ _ HI Es Ht) as (_ & _ & Hlow).
    destruct (IH l s1 t s' k HI1 ltac:(congruence) H) as (s2 & t2 & HI2 & Hc2 & Hlow2 & Hrun).
    exists s2, t2. split; [exact HI2|]. split; [congruence|]. split; [|exact Hrun].
    intros m i Hi. rewrite Hlow2 by exact Hi. apply Hlow. exact Hi.
Qed.

Lemma entry_none_ge s n i : Inv s -> length (ctxs s) <= i -> entry s n i = None.
Proof.
  intros [_ _ Hs] Hi. rewrite entry_lookup_i. rewrite (lookup_i_ge _ _ _ i (Hs n) Hi). reflexivity.
Qed.

Lemma regular_wrapper temps (mid : list instr) s t s' :
  Inv s ->
  (forall s1 t1 e1 s2, mrun (mid ++ [IOp OPop EIgnore]) s1 = (t1, e1, s2) ->
                       exists t0, mrun [IOp OPop EIgnore] s1 = (t0, e1, s2)) ->
  mrun (IOp (OPush CVolatile) EIgnore :: temp_volatile temps ++ mid ++ [IOp OPop EIgnore]) s
    = (t, Finished, s') ->
  ctxs s' = ctxs s /\ forall n, stack_of s' n = stack_of s n.
Proof.
  intros HI Hmid. cbn [irun step is_err].
  set (s0 := mkVS (vars s) (ctxs s ++ [CVolatile])).
  assert (Es0 : step s (OPush CVolatile) = Some (s0, RUnit)) by reflexivity.
  pose proof (inv_step _ _ _ _ HI Es0) as HI0.
  intros H.
  assert (Hlen0 : length (ctxs s0) = S (length (ctxs s))) by (cbn; rewrite app_length; cbn; lia).
  destruct (temps_phase temps _ s0 t s' (length (ctxs s)) HI0 Hlen0 H) as (s1 & t1 & HI1 & Hc1 & Hlow1 & Hrun).
  destruct (Hmid _ _ _ _ Hrun) as [t0 Hpop]. cbn [irun] in Hpop.
  destruct (step s1 OPop) as [[s2 r2]|] eqn:Ep; [|discriminate].
  assert (s2 = s') by (destruct (is_err r2); congruence). subst s2.
  pose proof (inv_step _ _ _ _ HI1 Ep) as HI'.
  destruct (pop_lemma _ _ _ HI1 Ep) as (Hc' & Hlow' & Hnone & _).
  assert (Hcs : ctxs s' = ctxs s).
  { rewrite Hc', Hc1. cbn [s0 ctxs]. apply removelast_last. }
  split; [exact Hcs|].
  intros n. apply stack_of_entries; [exact HI|exact HI'|exact Hcs|].
  intros i. destruct (Nat.lt_ge_cases i (length (ctxs s))) as [Hi|Hi].
  - rewrite Hlow' by (rewrite Hcs; exact Hi). rewrite Hlow1 by exact Hi. reflexivity.
  - rewrite (entry_none_ge s' n i HI') by (rewrite Hcs; exact Hi).
    rewrite (entry_none_ge s n i HI Hi). reflexivity.
Qed.

Lemma temp_regular_lemma temps s t s' :
  Inv s -> mrun (compile (CProbe temps)) s = (t, Finished, s') ->
  ctxs s' = ctxs s /\ forall n, stack_of s' n = stack_of s n.
Proof.
  intros HI H. apply (regular_wrapper temps [IObsVars] s t s' HI); [|exact H].
  intros s1 t1 e1 s2. cbn [app irun].
  destruct (step s1 OPop) as [[s3 r3]|]; [|intros [= <- <- <-]; eauto].
  destruct (is_err r3); intros [= <- <- <-]; eauto.
Qed.

Lemma temp_external_lemma temps s t s' :
  Inv s -> mrun (compile (CExec temps)) s = (t, Finished, s') ->
  ctxs s' = ctxs s /\ forall n, stack_of s' n = stack_of s n.
Proof.
  intros HI H. apply (regular_wrapper temps [IObsEnv] s t s' HI); [|exact H].
  intros s1 t1 e1 s2. cbn [app irun].
  destruct (step s1 OPop) as [[s3 r3]|]; [|intros [= <- <- <-]; eauto].
  destruct (is_err r3); intros [= <- <- <-]; eauto.
Qed.

(* ==== temporary assignments before a special built-in (or no command) persist ======== *)

Lemma temp_special_lemma n v s t s' :
  mrun (compile (CSpecial [(n, v)])) s = (t, Finished, s') ->
  exists w, get s' n = Some w /\ vval w = Some v.
Proof.
  cbn [compile temp_global map fst snd irun].
  destruct (step s (OGetOrNew n SGlobal [MAssign v (Some 0%N)])) as [[s1 r]|] eqn:Es; [|discriminate].
  destruct (is_err r) eqn:Er; [discriminate|]. intros [= _ <-].
  cbn [step] in Es.
  destruct (get_or_new_stack (ctxs s) SGlobal (stack_of s n)) as [[|[v0 j] rest]|]; try discriminate.
  cbn [mutate_all mutate] in Es. destruct (vro v0) eqn:Ero.
  - injection Es as <- <-. cbn in Er. discriminate.
  - injection Es as <- <-. unfold get. rewrite stack_of_with_same. eexists; split; reflexivity.
Qed.

(* ==== function calls: temporaries, locals and positional parameters vanish at return == *)

(* the state while a function body runs above the caller's [k] contexts: the
   volatile context of the temporaries at index k, the function's regular
   context at index k+1, and [d] more contexts *)
Definition above (k d : nat) (s : vset) : Prop :=
  length (ctxs s) = k + 2 + d /\ exists ps, nth_error (ctxs s) (S k) = Some (CRegular ps).

Definition keeps (k : nat) (n : name) (s s' : vset) : Prop :=
  firstn (S k) (ctxs s') = firstn (S k) (ctxs s) /\
  forall i, i <= k -> entry s' n i = entry s n i.

Lemma keeps_refl k n s : keeps k n s s.
Proof. split; auto. Qed.

Lemma keeps_trans k n s1 s2 s3 : keeps k n s1 s2 -> keeps k n s2 s3 -> keeps k n s1 s3.
Proof.
  intros [A1 B1] [A2 B2]. split; [congruence|].
  intros i Hi. rewrite B2, B1 by exact Hi. reflexivity.
Qed.

Definition op_safe (n : name) (o : op) : bool :=
  match o with
  | OGetOrNew m SGlobal _ => negb (str_eqb m n)
  | OUnset m SGlobal => negb (str_eqb m n)
  | _ => true
  end.

Definition dstep (d : nat) (o : op) : nat :=
  match o with OPush _ => S d | OPop => pred d | _ => d end.

Lemma topreg_ge cs j ps i : nth_error cs j = Some (CRegular ps) -> topreg cs = Some i -> j <= i.
Proof.
  intros Hj Ht. destruct (topreg_spec _ _ Ht) as (Hi & _ & Hv).
  destruct (Nat.le_gt_cases j i) as [H|H]; [exact H|].
  assert (Hlt : j < length cs) by (apply nth_error_Some; congruence).
  rewrite (Hv j H Hlt) in Hj. discriminate.
Qed.

Lemma topreg_exists cs j ps : nth_error cs j = Some (CRegular ps) -> exists i, topreg cs = Some i.
Proof.
  intros Hj. destruct (topreg cs) as [i|] eqn:E; [eauto|].
  assert (Hlt : j < length cs) by (apply nth_error_Some; congruence).
  rewrite (topreg_none _ E j Hlt) in Hj. discriminate.
Qed.

Lemma nth_error_firstn_lt {A} (l : list A) i j : i < j -> nth_error (firstn j l) i = nth_error l i.
Proof.
  revert i j. induction l as [|x l IH]; intros [|i] [|j] H; cbn; try reflexivity; try lia.
  apply IH. lia.
Qed.

Lemma firstn_cut {A} (l l' : list A) i j : i <= j -> firstn j l' = firstn j l -> firstn i l' = firstn i l.
Proof.
  intros H E. rewrite <- (firstn_firstn_le l' i j H), <- (firstn_firstn_le l i j H), E. reflexivity.
Qed.

Lemma body_step k d n s o s' r :
  Inv s -> above k d s -> op_safe n o = true ->
  (o = OPop -> 0 < d) ->
  step s o = Some (s', r) ->
  keeps k n s s' /\ above k (dstep d o) s'.
Proof.
  intros HI [Hlen [ps Hreg]] Hsafe Hpop Hstep.
  destruct (topreg_exists _ _ _ Hreg) as [tr Htr].
  pose proof (topreg_ge _ _ _ _ Hreg Htr) as Htr_ge.
  (* what every case needs from a touch index t >= k+1 *)
  assert (Hgen : forall t, touch_index s o = Some t -> S k <= t ->
            keeps k n s s' /\
            (S (S k) <= t -> nth_error (ctxs s') (S k) = nth_error (ctxs s) (S k))).
  { intros t Ht Hge. destruct (step_touch _ _ _ _ _ HI Hstep Ht) as (_ & Hf & Hlow).
    split; [split|].
    - eapply firstn_cut; [|exact Hf]. exact Hge.
    - intros i Hi. apply Hlow. lia.
    - intros Hge2.
      rewrite <- (nth_error_firstn_lt (ctxs s') (S k) t) by lia.
      rewrite <- (nth_error_firstn_lt (ctxs s) (S k) t) by lia. rewrite Hf. reflexivity. }
  destruct o as [c| |m sc ms|m sc|ps']; cbn [dstep].
  - destruct (Hgen (length (ctxs s)) eq_refl ltac:(lia)) as [Hk Hn].
    split; [exact Hk|]. split.
    + cbn [step] in Hstep. injection Hstep as <- <-. cbn [ctxs]. rewrite app_length. cbn. lia.
    + exists ps. rewrite Hn by lia. exact Hreg.
  - specialize (Hpop eq_refl).
    destruct (Hgen (length (ctxs s) - 1) eq_refl ltac:(lia)) as [Hk Hn].
    split; [exact Hk|]. split.
    + destruct (pop_lemma _ _ _ HI Hstep) as (Hc & _). rewrite Hc, removelast_length. lia.
    + exists ps. rewrite Hn by lia. exact Hreg.
  - pose proof (step_gon_ctxs _ _ _ _ _ _ Hstep) as Hc.
    assert (Hab : above k d s') by (split; [rewrite Hc; exact Hlen|exists ps; rewrite Hc; exact Hreg]).
    split; [|exact Hab].
    destruct (str_eq_dec m n) as [->|Hne].
    + destruct sc; cbn [op_safe] in Hsafe.
      * rewrite str_eqb_refl in Hsafe. discriminate.
      * apply (Hgen tr); [cbn; exact Htr|lia].
      * apply (Hgen (length (ctxs s) - 1)); [reflexivity|lia].
    + destruct (step_other_name _ _ _ _ n m Hstep eq_refl Hne) as [_ Hst].
      split; [rewrite Hc; reflexivity|]. intros i _. unfold entry. rewrite Hst. reflexivity.
  - pose proof (step_unset_ctxs _ _ _ _ _ Hstep) as Hc.
    assert (Hab : above k d s') by (split; [rewrite Hc; exact Hlen|exists ps; rewrite Hc; exact Hreg]).
    split; [|exact Hab].
    destruct (str_eq_dec m n) as [->|Hne].
    + destruct sc; cbn [op_safe] in Hsafe.
      * rewrite str_eqb_refl in Hsafe. discriminate.
      * apply (Hgen tr); [cbn; exact Htr|lia].
      * apply (Hgen (S tr)); [cbn; rewrite Htr; reflexivity|lia].
    + destruct (step_other_name _ _ _ _ n m Hstep eq_refl Hne) as [_ Hst].
      split; [rewrite Hc; reflexivity|]. intros i _. unfold entry. rewrite Hst. reflexivity.
  - destruct (Hgen tr Htr ltac:(lia)) as [Hk Hn].
    split; [exact Hk|].
    cbn [step] in Hstep. rewrite Htr in Hstep. injection Hstep as <- <-. unfold above. cbn [ctxs] in *.
    split; [rewrite set_nth_length; exact Hlen|].
    destruct (Nat.eq_dec tr (S k)) as [->|Hne].
    + exists ps'. apply nth_error_set_nth_same. lia.
    + exists ps. rewrite nth_error_set_nth_other by exact Hne. exact Hreg.
Qed.

Definition neutral (i : instr) : bool :=
  match i with IOp (OPush _) _ | IOp OPop _ => false | _ => true end.

(* the instructions of a function body: never pop below the function's own
   context, never use Scope::Global on [n] *)
Fixpoint wf (n : name) (d : nat) (l : list instr) : bool :=
  match l with
  | [] => true
  | IObsVars :: l => wf n d l
  | IObsEnv :: l => wf n d l
  | IOp o m :: l =>
      op_safe n o
      && match o with OPop => negb (d =? 0) | _ => true end
      && match m with
         | ESkip => match l with i :: _ => neutral i | [] => false end
         | _ => true
         end
      && wf n (dstep d o) l
  end.

Fixpoint depth_after (d : nat) (l : list instr) : nat :=
  match l with
  | [] => d
  | IOp o _ :: l => depth_after (dstep d o) l
  | _ :: l => depth_after d l
  end.

Lemma wf_skip_neutral n d i l : neutral i = true -> wf n d (i :: l) = true ->
  wf n d l = true /\ depth_after d (i :: l) = depth_after d l.
Proof.
  destruct i as [o m| |]; cbn [neutral wf depth_after]; intros Hn H; try (split; [exact H|reflexivity]).
  apply andb_true_iff in H. destruct H as [_ H].
  destruct o; try discriminate; cbn [dstep] in *; split; try exact H; reflexivity.
Qed.

Lemma body_irun_fuel k n fuel : forall l1, length l1 <= fuel -> forall l2 s d t s',
  Inv s -> above k d s -> wf n d l1 = true ->
  mrun (l1 ++ l2) s = (t, Finished, s') ->
  exists s1 t2, Inv s1 /\ keeps k n s s1 /\ above k (depth_after d l1) s1 /\
                mrun l2 s1 = (t2, Finished, s').
Proof.
  induction fuel as [|fuel IH]; intros l1 Hfuel l2 s d t s' HI Hab Hwf Hrun.
  { destruct l1; [|cbn in Hfuel; lia].
    exists s, t. split; [exact HI|]. split; [apply keeps_refl|]. split; [exact Hab|exact Hrun]. }
  destruct l1 as [|i l1].
  { exists s, t. split; [exact HI|]. split; [apply keeps_refl|]. split; [exact Hab|exact Hrun]. }
  cbn [length] in Hfuel.
  destruct i as [o m| |].
  - cbn [wf] in Hwf. rewrite !andb_true_iff in Hwf. destruct Hwf as [[[Hsafe Hpop] Hskip] Hwf].
    cbn [app irun] in Hrun.
    destruct (step s o) as [[s1 r]|] eqn:Es; [|discriminate].
    assert (Hpop' : o = OPop -> 0 < d).
    { intros ->. apply negb_true_iff, Nat.eqb_neq in Hpop. lia. }
    destruct (body_step k d n s o s1 r HI Hab Hsafe Hpop' Es) as [Hk1 Hab1].
    pose proof (inv_step _ _ _ _ HI Es) as HI1.
    cbn [depth_after].
    assert (Hcont : forall l1' t0, length l1' <= fuel -> wf n (dstep d o) l1' = true ->
              depth_after (dstep d o) l1' = depth_after (dstep d o) l1 ->
              mrun (l1' ++ l2) s1 = (t0, Finished, s') ->
              exists s2 t2, Inv s2 /\ keeps k n s s2 /\ above k (depth_after (dstep d o) l1) s2 /\
                            mrun l2 s2 = (t2, Finished, s')).
    { intros l1' t0 Hl Hw Hd H.
      destruct (IH l1' Hl l2 s1 (dstep d o) t0 s' HI1 Hab1 Hw H) as (s2 & t2 & A & B & C & D).
      exists s2, t2. split; [exact A|]. split; [eapply keeps_trans; eassumption|].
      split; [rewrite <- Hd; exact C|exact D]. }
    destruct (is_err r).
    + destruct m.
      * apply (Hcont l1 t); [lia|exact Hwf|reflexivity|exact Hrun].
      * discriminate.
      * destruct l1 as [|i2 l1']; [discriminate|]. cbn [app] in Hrun.
        destruct (wf_skip_neutral _ _ _ _ Hskip Hwf) as [Hwf' Hd'].
        apply (Hcont l1' t); [cbn [length] in Hfuel; lia|exact Hwf'|symmetry; exact Hd'|exact Hrun].
    + apply (Hcont l1 t); [lia|exact Hwf|reflexivity|exact Hrun].
  - cbn [wf depth_after] in *. cbn [app irun] in Hrun.
    destruct (mrun (l1 ++ l2) s) as [[t0 e0] s0] eqn:E. injection Hrun as _ -> ->.
    apply (IH l1 ltac:(lia) l2 s d t0 s' HI Hab Hwf E).
  - cbn [wf depth_after] in *. cbn [app irun] in Hrun.
    destruct (mrun (l1 ++ l2) s) as [[t0 e0] s0] eqn:E. injection Hrun as _ -> ->.
    apply (IH l1 ltac:(lia) l2 s d t0 s' HI Hab Hwf E).
Qed.

Lemma body_irun k n l1 l2 s d t s' :
  Inv s -> above k d s -> wf n d l1 = true ->
  mrun (l1 ++ l2) s = (t, Finished, s') ->
  exists s1 t2, Inv s1 /\ keeps k n s s1 /\ above k (depth_after d l1) s1 /\
                mrun l2 s1 = (t2, Finished, s').
Proof. apply (body_irun_fuel k n (length l1) l1 (le_n _)). Qed.

(* ---- compiled commands are well-formed bodies ------------------------------------------- *)


Section CmdInd.
  Variable P : cmd -> Prop.
  Hypothesis H_assign : forall a, P (CAssign a).
  Hypothesis H_probe : forall t, P (CProbe t).
  Hypothesis H_special : forall t, P (CSpecial t).
  Hypothesis H_call : forall t body a, Forall P body -> P (CCall t body a).
  Hypothesis H_typeset : forall t g x r n v, P (CTypeset t g x r n v).
  Hypothesis H_export : forall n v, P (CExport n v).
  Hypothesis H_readonly : forall n v, P (CReadonly n v).
  Hypothesis H_unset : forall n, P (CUnset n).
  Hypothesis H_setparams : forall ps, P (CSetParams ps).
  Hypothesis H_exec : forall t, P (CExec t).
  Hypothesis H_read : forall t n l, P (CRead t n l).
  Hypothesis H_for : forall n vals body, Forall P body -> P (CFor n vals body).
  Hypothesis H_return : P CReturn.

  Fixpoint cmd_ind' (c : cmd) : P c :=
    match c with
    | CAssign a => H_assign a
    | CProbe t => H_probe t
    | CSpecial t => H_special t
    | CCall t body a =>
        H_call t body a
          ((fix go (l : list cmd) : Forall P l :=
              match l with
              | [] => Forall_nil P
              | c :: l => Forall_cons c (cmd_ind' c) (go l)
              end) body)
    | CTypeset t g x r n v => H_typeset t g x r n v
    | CExport n v => H_export n v
    | CReadonly n v => H_readonly n v
    | CUnset n => H_unset n
    | CSetParams ps => H_setparams ps
    | CExec t => H_exec t
    | CRead t n l => H_read t n l
    | CFor n vals body =>
        H_for n vals body
          ((fix go (l : list cmd) : Forall P l :=
              match l with
              | [] => Forall_nil P
              | c :: l => Forall_cons c (cmd_ind' c) (go l)
              end) body)
    | CReturn => H_return
    end.
End CmdInd.

Lemma compile_call t body a :
  compile (CCall t body a) =
  IOp (OPush CVolatile) EIgnore :: temp_volatile t
  ++ IOp (OPush (CRegular a)) EIgnore :: flat_map compile (cut_return body)
  ++ [IOp OPop EIgnore; IOp OPop EIgnore].
Proof.
  cbn [compile]. do 4 f_equal.
  induction body as [|c body IH]; [reflexivity|].
  destruct c; cbn [cut_return flat_map]; try (rewrite IH; reflexivity). reflexivity.
Qed.

Lemma forallb_cut_return (f : cmd -> bool) body :
  forallb f body = true -> forallb f (cut_return body) = true.
Proof.
  induction body as [|c body IH]; [reflexivity|]. cbn [forallb]. rewrite andb_true_iff. intros [H1 H2].
  destruct c; cbn [cut_return forallb]; rewrite ?H1, ?(IH H2); reflexivity.
Qed.

Lemma Forall_cut_return (P : cmd -> Prop) body : Forall P body -> Forall P (cut_return body).
Proof.
  induction 1 as [|c body Hc _ IH]; [constructor|].
  destruct c; cbn [cut_return]; constructor; assumption.
Qed.

Definition good (n : name) (l0 : list instr) : Prop :=
  forall d l, wf n d l = true ->
              wf n d (l0 ++ l) = true /\ depth_after d (l0 ++ l) = depth_after d l.

Lemma good_nil n : good n [].
Proof. intros d l H. auto. Qed.

Lemma good_app n l1 l2 : good n l1 -> good n l2 -> good n (l1 ++ l2).
Proof.
  intros H1 H2 d l Hw. rewrite <- app_assoc.
  destruct (H2 d l Hw) as [A B]. destruct (H1 d (l2 ++ l) A) as [C D].
  split; [exact C|congruence].
Qed.

Lemma good_temp_volatile n temps : good n (temp_volatile temps).
Proof.
  induction temps as [|[m v] temps IH]; [apply good_nil|].
  intros d l Hw. destruct (IH d l Hw) as [A B].
  cbn [temp_volatile map app wf depth_after op_safe dstep fst snd andb]. auto.
Qed.

Lemma good_temp_global n temps :
  forallb (fun p => negb (str_eqb (fst p) n)) temps = true -> good n (temp_global temps).
Proof.
  induction temps as [|[m v] temps IH]; [intros _; apply good_nil|].
  cbn [forallb fst]. rewrite andb_true_iff. intros [Hm Ht].
  intros d l Hw. destruct (IH Ht d l Hw) as [A B].
  cbn [temp_global map app wf depth_after op_safe dstep fst snd]. rewrite Hm. cbn [andb]. auto.
Qed.

(* a neutral single operation *)
Lemma good_op n o m :
  op_safe n o = true -> neutral (IOp o m) = true -> m <> ESkip -> good n [IOp o m].
Proof.
  intros Hs Hn Hm d l Hw. cbn [app wf depth_after]. rewrite Hs.
  assert (Hd : dstep d o = d) by (destruct o; try reflexivity; discriminate).
  rewrite Hd.
  assert (Hp : match o with OPop => negb (d =? 0) | _ => true end = true)
    by (destruct o; try reflexivity; discriminate).
  rewrite Hp. destruct m; try congruence; cbn [andb]; auto.
Qed.

(* push ... pop around a good block *)
Lemma good_bracket n c l0 : good n l0 -> good n (IOp (OPush c) EIgnore :: l0 ++ [IOp OPop EIgnore]).
Proof.
  intros H d l Hw.
  assert (Hpop : wf n (S d) (IOp OPop EIgnore :: l) = true).
  { cbn [wf op_safe dstep pred andb Nat.eqb negb]. exact Hw. }
  destruct (H (S d) (IOp OPop EIgnore :: l) Hpop) as [A B].
  cbn [app wf depth_after op_safe dstep andb]. rewrite <- app_assoc. cbn [app].
  split; [exact A|]. rewrite B. reflexivity.
Qed.

Lemma good_flat_map n body :
  Forall (fun c => cmd_safe n c = true -> good n (compile c)) body ->
  forallb (cmd_safe n) body = true -> good n (flat_map compile body).
Proof.
  induction 1 as [|c body Hc _ IH]; cbn [forallb flat_map]; [intros _; apply good_nil|].
  rewrite andb_true_iff. intros [H1 H2]. apply good_app; [apply Hc; exact H1|apply IH; exact H2].
Qed.

Lemma compile_good n c : cmd_safe n c = true -> good n (compile c).
Proof.
  induction c as [a|t|t|t body a IH|t g x r m v|m v|m v|m|ps|t|t m ln|m vals body IH|] using cmd_ind';
    try rewrite compile_call; cbn [cmd_safe compile]; intros Hs.
  - apply good_temp_global; exact Hs.
  - replace (temp_volatile t ++ [IObsVars; IOp OPop EIgnore])
      with ((temp_volatile t ++ [IObsVars]) ++ [IOp OPop EIgnore]) by (rewrite <- app_assoc; reflexivity).
    apply (good_bracket n CVolatile (temp_volatile t ++ [IObsVars])).
    apply good_app; [apply good_temp_volatile|]. intros d l Hw. cbn. auto.
  - apply good_temp_global; exact Hs.
  - (* call *)
    replace (temp_volatile t ++ IOp (OPush (CRegular a)) EIgnore :: flat_map compile (cut_return body)
             ++ [IOp OPop EIgnore; IOp OPop EIgnore])
      with ((temp_volatile t ++ (IOp (OPush (CRegular a)) EIgnore :: flat_map compile (cut_return body)
             ++ [IOp OPop EIgnore])) ++ [IOp OPop EIgnore]).
    2:{ rewrite <- !app_assoc. cbn [app]. rewrite <- !app_assoc. reflexivity. }
    apply (good_bracket n CVolatile).
    apply good_app; [apply good_temp_volatile|].
    apply (good_bracket n (CRegular a)).
    apply good_flat_map; [apply Forall_cut_return; exact IH|apply forallb_cut_return; exact Hs].
  - (* typeset *)
    set (sc := if g then SGlobal else SLocal).
    assert (Hop : forall ms, op_safe n (OGetOrNew m sc ms) = true).
    { intros ms. subst sc. destruct g; [|reflexivity]. cbn [op_safe].
      cbn [andb] in Hs. exact Hs. }
    match goal with |- good n (IOp (OPush CVolatile) EIgnore :: ?a ++ ?b ++ [?c; IOp OPop EIgnore]) =>
      replace (IOp (OPush CVolatile) EIgnore :: a ++ b ++ [c; IOp OPop EIgnore])
        with (IOp (OPush CVolatile) EIgnore :: (a ++ b ++ [c]) ++ [IOp OPop EIgnore])
        by (rewrite <- !app_assoc; reflexivity)
    end.
    apply good_bracket. apply good_app; [apply good_temp_volatile|].
    destruct v as [val|]; cbn [app].
    + intros d l Hw. cbn [app wf depth_after dstep neutral]. rewrite !Hop. cbn [andb]. auto.
    + apply good_op; [apply Hop|reflexivity|discriminate].
  - apply good_op; [cbn [op_safe]; exact Hs|reflexivity|discriminate].
  - apply good_op; [cbn [op_safe]; exact Hs|reflexivity|discriminate].
  - apply good_op; [cbn [op_safe]; exact Hs|reflexivity|discriminate].
  - apply good_op; [reflexivity|reflexivity|discriminate].
  - replace (temp_volatile t ++ [IObsEnv; IOp OPop EIgnore])
      with ((temp_volatile t ++ [IObsEnv]) ++ [IOp OPop EIgnore]) by (rewrite <- app_assoc; reflexivity).
    apply (good_bracket n CVolatile (temp_volatile t ++ [IObsEnv])).
    apply good_app; [apply good_temp_volatile|]. intros d l Hw. cbn. auto.
  - match goal with |- good n (IOp (OPush CVolatile) EIgnore :: ?a ++ [?c; IOp OPop EIgnore]) =>
      replace (IOp (OPush CVolatile) EIgnore :: a ++ [c; IOp OPop EIgnore])
        with (IOp (OPush CVolatile) EIgnore :: (a ++ [c]) ++ [IOp OPop EIgnore])
        by (rewrite <- !app_assoc; reflexivity)
    end.
    apply good_bracket. apply good_app; [apply good_temp_volatile|].
    apply good_op; [cbn [op_safe]; exact Hs|reflexivity|discriminate].
  - (* for *)
    apply andb_true_iff in Hs. destruct Hs as [Hm Hb].
    induction vals as [|v vals IHv]; cbn [flat_map]; [apply good_nil|].
    apply good_app; [|exact IHv].
    apply (good_app n [_]); [|apply good_flat_map; assumption].
    apply good_op; [cbn [op_safe]; exact Hm|reflexivity|discriminate].
  - apply good_nil.
Qed.

Lemma compile_script_good n body :
  forallb (cmd_safe n) body = true -> good n (flat_map compile body).
Proof.
  intros H. apply good_flat_map; [|exact H].
  apply Forall_forall. intros c _. apply compile_good.
Qed.

(* ---- the function call ----------------------------------------------------------------------- *)

Lemma temp_function_lemma temps body args n s t s' :
  Inv s -> forallb (cmd_safe n) body = true ->
  mrun (compile (CCall temps body args)) s = (t, Finished, s') ->
  ctxs s' = ctxs s /\ stack_of s' n = stack_of s n.
Proof.
  intros HI Hsafe. rewrite compile_call. cbn [irun step is_err].
  apply (forallb_cut_return (cmd_safe n)) in Hsafe.
  set (k := length (ctxs s)).
  set (s0 := mkVS (vars s) (ctxs s ++ [CVolatile])).
  assert (Es0 : step s (OPush CVolatile) = Some (s0, RUnit)) by reflexivity.
  pose proof (inv_step _ _ _ _ HI Es0) as HI0.
  assert (Hlen0 : length (ctxs s0) = S k) by (cbn; rewrite app_length; cbn; lia).
  intros H.
  destruct (temps_phase temps _ s0 t s' k HI0 Hlen0 H) as (s1 & t1 & HI1 & Hc1 & Hlow1 & Hrun1).
  (* push the function's regular context *)
  cbn [irun step is_err] in Hrun1.
  set (s2 := mkVS (vars s1) (ctxs s1 ++ [CRegular args])) in Hrun1.
  assert (Es2 : step s1 (OPush (CRegular args)) = Some (s2, RUnit)) by reflexivity.
  pose proof (inv_step _ _ _ _ HI1 Es2) as HI2.
  assert (Hab2 : above k 0 s2).
  { split.
    - cbn [s2 ctxs]. rewrite app_length, Hc1, Hlen0. cbn. lia.
    - exists args. cbn [s2 ctxs]. rewrite nth_error_app2 by (rewrite Hc1, Hlen0; lia).
      rewrite Hc1, Hlen0, Nat.sub_diag. reflexivity. }
  assert (Hk12 : forall i, i < k -> entry s2 n i = entry s n i).
  { intros i Hi. change (entry s2 n i) with (entry s1 n i). rewrite Hlow1 by exact Hi. reflexivity. }
  destruct (compile_script_good n (cut_return body) Hsafe 0 [] eq_refl) as [Hwf Hdep].
  rewrite app_nil_r in Hwf, Hdep. cbn [depth_after] in Hdep.
  destruct (body_irun k n _ _ s2 0 _ s' HI2 Hab2 Hwf Hrun1) as (s3 & t3 & HI3 & [Hf3 Hk3] & Hab3 & Hrun3).
  rewrite Hdep in Hab3. destruct Hab3 as [Hlen3 _].
  (* the two pops *)
  cbn [irun] in Hrun3.
  destruct (step s3 OPop) as [[s4 r4]|] eqn:Ep4; [|discriminate].
  assert (Hrun4 : exists t4, mrun [IOp OPop EIgnore] s4 = (t4, Finished, s'))
    by (destruct (is_err r4); eauto).
  destruct Hrun4 as [t4 Hrun4]. cbn [irun] in Hrun4.
  destruct (step s4 OPop) as [[s5 r5]|] eqn:Ep5; [|discriminate].
  assert (s5 = s') by (destruct (is_err r5); congruence). subst s5.
  pose proof (inv_step _ _ _ _ HI3 Ep4) as HI4. pose proof (inv_step _ _ _ _ HI4 Ep5) as HI'.
  destruct (pop_lemma _ _ _ HI3 Ep4) as (Hc4 & Hlow4 & _).
  destruct (pop_lemma _ _ _ HI4 Ep5) as (Hc5 & Hlow5 & _).
  assert (Hl4 : length (ctxs s4) = S k) by (rewrite Hc4, removelast_length; lia).
  assert (Hl5 : length (ctxs s') = k) by (rewrite Hc5, removelast_length; lia).
  assert (Hcs : ctxs s' = ctxs s).
  { assert (E4 : ctxs s4 = firstn (S k) (ctxs s3)).
    { rewrite Hc4, removelast_firstn, Hlen3. f_equal. lia. }
    assert (E5 : ctxs s' = firstn k (ctxs s3)).
    { rewrite Hc5, removelast_firstn, Hl4, E4. replace (S k - 1) with k by lia.
      apply firstn_firstn_le. lia. }
    rewrite E5. rewrite (firstn_cut _ _ k (S k) ltac:(lia) Hf3).
    cbn [s2 ctxs]. rewrite Hc1. cbn [s0 ctxs]. rewrite <- app_assoc.
    rewrite firstn_app_le by (fold k; lia). apply firstn_all. }
  split; [exact Hcs|].
  apply stack_of_entries; [exact HI|exact HI'|exact Hcs|].
  intros i. destruct (Nat.lt_ge_cases i k) as [Hi|Hi].
  - rewrite Hlow5 by lia. rewrite Hlow4 by lia. rewrite Hk3 by lia. apply Hk12. exact Hi.
  - rewrite (entry_none_ge s' n i HI') by lia. rewrite (entry_none_ge s n i HI) by (fold k; lia).
    reflexivity.
Qed.

End Lifetime.

(* ==== globals assigned inside a function persist ============================================ *)

Lemma gon_loop_head_regular cs ci removed st w j rest1 ps0 :
  nth_error cs ci = Some (CRegular ps0) ->
  gon_loop cs ci removed st = Some ((w, j) :: rest1) ->
  (exists ps, nth_error cs j = Some (CRegular ps)) /\ (j = ci \/ In j (map snd st)).
Proof.
  intros Hci. revert removed. induction st as [|[v0 j0] rest IH]; intros removed; cbn [gon_loop].
  - intros [= _ <- _]. split; [eauto|left; reflexivity].
  - destruct (j0 <? ci).
    + intros [= _ <- _]. split; [eauto|left; reflexivity].
    + destruct (nth_error cs j0) as [[ps|]|] eqn:En; [| |discriminate].
      * intros [= _ <- _]. split; [eauto|right; left; reflexivity].
      * intros H. destruct (IH _ H) as [A [B|B]]; (split; [exact A|]); [left; exact B|right; right; exact B].
Qed.

Lemma pop_keeps_stack s s' r n v j rest :
  Inv s -> step s OPop = Some (s', r) ->
  stack_of s n = (v, j) :: rest -> S j < length (ctxs s) ->
  stack_of s' n = stack_of s n.
Proof.
  intros HI Hstep Hst Hj. rewrite step_pop in Hstep.
  destruct (length (ctxs s) <? 2); [discriminate|]. injection Hstep as <- <-.
  rewrite stack_of_pop by (destruct HI; assumption). rewrite Hst. cbn [pop_if_ge].
  replace (length (ctxs s) - 1 <=? j) with false by (symmetry; apply Nat.leb_gt; lia). reflexivity.
Qed.

Section Persist.
Variable ov oe : vset -> pobs.
Notation mrun := (irun vset step ov oe).

Lemma global_assign_persists_lemma temps n v args s t s' :
  Inv s ->
  mrun (compile (CCall temps [CAssign [(n, v)]] args)) s = (t, Finished, s') ->
  exists w, get s' n = Some w /\ vval w = Some v.
Proof.
  intros HI. cbn [compile irun step is_err].
  set (k := length (ctxs s)).
  set (s0 := mkVS (vars s) (ctxs s ++ [CVolatile])).
  assert (Es0 : step s (OPush CVolatile) = Some (s0, RUnit)) by reflexivity.
  pose proof (inv_step _ _ _ _ HI Es0) as HI0.
  assert (Hlen0 : length (ctxs s0) = S k) by (cbn; rewrite app_length; cbn; lia).
  intros H.
  destruct (temps_phase ov oe temps _ s0 t s' k HI0 Hlen0 H) as (s1 & t1 & HI1 & Hc1 & _ & Hrun1).
  cbn [flat_map compile temp_global map app fst snd] in Hrun1.
  cbn [irun] in Hrun1.
  set (s2 := mkVS (vars s1) (ctxs s1 ++ [CRegular args])).
  assert (Es2 : step s1 (OPush (CRegular args)) = Some (s2, RUnit)) by reflexivity.
  rewrite Es2 in Hrun1. cbn [is_err] in Hrun1.
  pose proof (inv_step _ _ _ _ HI1 Es2) as HI2.
  assert (Hcs2 : ctxs s2 = (ctxs s ++ [CVolatile]) ++ [CRegular args]).
  { cbn [s2 ctxs]. rewrite Hc1. reflexivity. }
  assert (Hl2 : length (ctxs s2) = k + 2) by (rewrite Hcs2, !app_length; cbn; fold k; lia).
  destruct (step s2 (OGetOrNew n SGlobal [MAssign v (Some 0%N)])) as [[s3 r3]|] eqn:Es3; [|discriminate].
  destruct (is_err r3) eqn:Er3; [discriminate|].
  pose proof (inv_step _ _ _ _ HI2 Es3) as HI3.
  pose proof (step_gon_ctxs _ _ _ _ _ _ Es3) as Hc3.
  (* where the variable landed *)
  assert (Hhead : exists w j rest, stack_of s3 n = (w, j) :: rest /\ vval w = Some v /\ j < k).
  { cbn [step] in Es3.
    destruct (get_or_new_stack (ctxs s2) SGlobal (stack_of s2 n)) as [[|[v0 j] rest]|] eqn:Eg; try discriminate.
    cbn [mutate_all mutate] in Es3. destruct (vro v0) eqn:Ero.
    { injection Es3 as <- <-. cbn in Er3. discriminate. }
    injection Es3 as <- <-. rewrite stack_of_with_same.
    eexists _, j, rest. split; [reflexivity|]. split; [reflexivity|].
    cbn [get_or_new_stack] in Eg.
    destruct HI as [_ (ps0 & cs0 & Ecs) _].
    assert (H0 : nth_error (ctxs s2) 0 = Some (CRegular ps0)) by (rewrite Hcs2, Ecs; reflexivity).
    destruct (gon_loop_head_regular _ _ _ _ _ _ _ _ H0 Eg) as [[ps Hreg] Hor].
    assert (Hk1 : 1 <= k) by (unfold k; rewrite Ecs; cbn; lia).
    assert (Hjk : j <> k).
    { intros ->. rewrite Hcs2 in Hreg. rewrite nth_error_app1 in Hreg by (rewrite app_length; cbn; fold k; lia).
      rewrite nth_error_app2 in Hreg by (fold k; lia). fold k in Hreg. rewrite Nat.sub_diag in Hreg.
      discriminate. }
    assert (Hjle : j <= k).
    { destruct Hor as [->|Hin]; [lia|].
      apply in_map_iff in Hin. destruct Hin as ([w' j'] & Hj' & Hin). cbn in Hj'. subst j'.
      change (stack_of s2 n) with (stack_of s1 n) in Hin.
      destruct HI1 as [_ _ Hs1]. pose proof (stack_ok_lt _ _ _ _ _ (Hs1 n) Hin) as Hlt.
      rewrite Hc1, Hlen0 in Hlt. lia. }
    lia. }
  destruct Hhead as (w & j & rest & Hst3 & Hval & Hj).
  destruct (step s3 OPop) as [[s4 r4]|] eqn:Ep4; [|discriminate].
  assert (Hrun4 : exists t4, mrun [IOp OPop EIgnore] s4 = (t4, Finished, s'))
    by (destruct (is_err r4); eauto).
  destruct Hrun4 as [t4 Hrun4]. cbn [irun] in Hrun4.
  destruct (step s4 OPop) as [[s5 r5]|] eqn:Ep5; [|discriminate].
  assert (s5 = s') by (destruct (is_err r5); congruence). subst s5.
  pose proof (inv_step _ _ _ _ HI3 Ep4) as HI4.
  destruct (pop_lemma _ _ _ HI3 Ep4) as (Hc4 & _).
  assert (Hl4 : length (ctxs s4) = S k) by (rewrite Hc4, removelast_length, Hc3, Hl2; lia).
  pose proof (pop_keeps_stack _ _ _ n w j rest HI3 Ep4 Hst3 ltac:(rewrite Hc3, Hl2; lia)) as Hst4.
  rewrite Hst3 in Hst4.
  pose proof (pop_keeps_stack _ _ _ n w j rest HI4 Ep5 Hst4 ltac:(rewrite Hl4; lia)) as Hst5.
  exists w. split; [|exact Hval]. unfold get. rewrite Hst5, Hst4. reflexivity.
Qed.

End Persist.

(* ==== return, for ============================================================================ *)

Lemma cut_return_app pre post : cut_return pre = pre -> cut_return (pre ++ CReturn :: post) = pre.
Proof.
  induction pre as [|c pre IH]; [reflexivity|].
  destruct c; cbn [cut_return app]; try discriminate; intros [= H]; rewrite (IH H); reflexivity.
Qed.

Lemma return_lemma t pre post a :
  cut_return pre = pre ->
  compile (CCall t (pre ++ CReturn :: post) a) = compile (CCall t pre a).
Proof. intros H. rewrite !compile_call, (cut_return_app _ _ H), H. reflexivity. Qed.

Section ForLoop.
Variable ov oe : vset -> pobs.
Notation mrun := (irun vset step ov oe).

Lemma for_lemma n vals v s t s' :
  mrun (compile (CFor n (vals ++ [v]) [])) s = (t, Finished, s') ->
  ctxs s' = ctxs s /\ exists w, get s' n = Some w /\ vval w = Some (Scalar v).
Proof.
  cbn [compile flat_map]. revert s. induction vals as [|u vals IH]; intros s; cbn [app flat_map irun].
  - destruct (step s (OGetOrNew n SGlobal [MAssign (Scalar v) (Some 0%N)])) as [[s1 r]|] eqn:Es; [|discriminate].
    destruct (is_err r) eqn:Er; [discriminate|]. intros [= _ <-].
    split; [apply (step_gon_ctxs _ _ _ _ _ _ Es)|].
    cbn [step] in Es.
    destruct (get_or_new_stack (ctxs s) SGlobal (stack_of s n)) as [[|[v0 j] rest]|]; try discriminate.
    cbn [mutate_all mutate] in Es. destruct (vro v0) eqn:Ero.
    + injection Es as <- <-. cbn in Er. discriminate.
    + injection Es as <- <-. unfold get. rewrite stack_of_with_same. eexists; split; reflexivity.
  - destruct (step s (OGetOrNew n SGlobal [MAssign (Scalar u) (Some 0%N)])) as [[s1 r]|] eqn:Es; [|discriminate].
    destruct (is_err r); [discriminate|]. intros H.
    destruct (IH s1 H) as [Hc Hw]. split; [|exact Hw].
    rewrite Hc. apply (step_gon_ctxs _ _ _ _ _ _ Es).
Qed.
End ForLoop.
