(* C16 — what the correspondence check evaluates on every case. *)
From Yv Require Export Common.Base C16.Model C16.Spec.

(* ---- what the MODEL shows through the same API ------------------------------ *)

Definition unwrap {A} (d : A) (o : option A) : A := match o with Some x => x | None => d end.

Definition observe (names : list name) (s : vset) (r : result) : obs :=
  mkObs (Some r)
        (map (get s) names)
        (map (fun n => (unwrap None (get_scoped s n SGlobal),
                        unwrap None (get_scoped s n SLocal),
                        unwrap None (get_scoped s n SVolatile))) names)
        (unwrap [] (iter s SGlobal), unwrap [] (iter s SLocal), unwrap [] (iter s SVolatile))
        (env_c_strings s)
        (unwrap [] (positional_params s)).

Definition same_set {A} (eqb : A -> A -> bool) (l1 l2 : list A) : bool :=
  Nat.eqb (length l1) (length l2)
  && forallb (fun x => existsb (eqb x) l2) l1
  && forallb (fun x => existsb (eqb x) l1) l2.

Definition triple_eqb (x y : option var * option var * option var) : bool :=
  match x, y with
  | (g, l, v), (g', l', v') =>
      option_eqb var_eqb g g' && option_eqb var_eqb l l' && option_eqb var_eqb v v'
  end.

(* iteration order of the hash map is not observable: compare as sets *)
Definition obs_eqb (x y : obs) : bool :=
  option_eqb result_eqb (o_res x) (o_res y)
  && list_eqb (option_eqb var_eqb) (o_get x) (o_get y)
  && list_eqb triple_eqb (o_scoped x) (o_scoped y)
  && match o_iter x, o_iter y with
     | (g, l, v), (g', l', v') =>
         same_set nv_eqb g g' && same_set nv_eqb l l' && same_set nv_eqb v v'
     end
  && same_set str_eqb (o_env x) (o_env y)
  && list_eqb str_eqb (o_params x) (o_params y).

Definition op_names_ok (names : list name) (o : op) : bool :=
  match o with
  | OGetOrNew n _ _ | OUnset n _ => existsb (str_eqb n) names
  | _ => true
  end.

(* One case.
   CaseOps: the names in play and the history as (operation, what the
   implementation showed after it); a panic ends the history.
   CaseScript: a script of the small command language, run by the real shell
   on the simulated OS; what the probes saw, in order; whether it panicked. *)
Inductive case :=
| CaseOps (names : list name) (hist : list (op * obs))
| CaseScript (names : list name) (script : list cmd) (trace : list pobs) (panicked : bool).

Definition worse (v rest : verdict) : verdict :=
  match rest with 0%N => v | _ => rest end.

Fixpoint run_hist (names : list name) (s : option vset) (a : sstate) (h : list (op * obs)) : verdict :=
  match h with
  | [] => 0%N
  | (o, ob) :: h =>
      if negb (op_names_ok names o) then 99%N else
      let m := match s with Some s0 => step s0 o | None => None end in
      match sstep a o with
      | None =>
          (* outside the documented domain of the operation (pop of the base
             context, Scope::Volatile without a volatile context on top): the
             specification says nothing; the model must still agree *)
          match m, o_res ob with
          | None, None => 0%N
          | _, _ => 1%N
          end
      | Some (a', r) =>
          (* the oracle first, on the implementation's output only *)
          match first_false 0 (oracle_clauses names a' r ob) with
          | Some k => (2 + k)%N
          | None =>
              match m with
              | Some (s', r') =>
                  if obs_eqb (observe names s' r') ob
                  then run_hist names (Some s') a' h
                  else worse 1%N (run_hist names (Some s') a' h)
              | None => worse 1%N (run_hist names None a' h)
              end
          end
      end
  end.

Definition run_script_case (names : list name) (cs : list cmd) (trace : list pobs) (panicked : bool)
  : verdict :=
  match srun_script names cs with
  | (_, Panicked, _) => 99%N                (* the generator left the domain of the caller rules *)
  | (ts, _, _) =>
      (* the oracle first: the specification (stack of maps under the caller
         rules) against what the real shell showed *)
      if panicked then 10%N
      else if negb (list_eqb pobs_eqb trace ts) then 11%N
      else match run_script names cs with
           | (tm, Panicked, _) => 1%N
           | (tm, _, _) => if list_eqb pobs_eqb tm trace then 0%N else 1%N
           end
  end.

Definition run_case (c : case) : verdict :=
  match c with
  | CaseOps names h => run_hist names (Some init) sinit h
  | CaseScript names cs trace p => run_script_case names cs trace p
  end.

Definition run_cases := run_cases_with run_case.
