(* C16 — the property lemmas (used by Properties.v). *)
From Yv Require Import Common.Base C16.Model C16.Spec C16.ProofsBase C16.ProofsAbs.
From Coq Require Import Lia.

(* ---- histories ----------------------------------------------------------------- *)

Lemma sim_run ops : forall s a, Inv s -> Abs s a ->
  match run s ops, srun a ops with
  | Some s', Some a' => Inv s' /\ Abs s' a'
  | None, None => True
  | _, _ => False
  end.
Proof.
  induction ops as [|o ops IH]; intros s a HI HA; cbn [run srun]; [split; assumption|].
  pose proof (sim_step s a o HI HA) as H.
  destruct (step s o) as [[s1 r]|] eqn:E1; destruct (sstep a o) as [[a1 r']|] eqn:E2; try contradiction.
  - destruct H as [HA1 _]. apply IH; [eapply inv_step; eassumption|exact HA1].
  - exact I.
Qed.

Lemma sim_run_init ops :
  match run init ops, srun sinit ops with
  | Some s', Some a' => Inv s' /\ Abs s' a'
  | None, None => True
  | _, _ => False
  end.
Proof. apply sim_run; [apply inv_init|apply abs_init]. Qed.

(* ---- lookup ---------------------------------------------------------------------- *)

Definition lookup_i (st : list vic) (i : nat) : option vic :=
  find (fun p : vic => Nat.eqb (snd p) i) st.

Lemma entry_lookup_i s n i :
  entry s n i = match lookup_i (stack_of s n) i with Some (v, _) => Some v | None => None end.
Proof. reflexivity. Qed.

Lemma lookup_i_some st i p : lookup_i st i = Some p -> In p st /\ snd p = i.
Proof.
  unfold lookup_i. intros H. apply find_some in H. destruct H as [H1 H2].
  apply Nat.eqb_eq in H2. split; assumption.
Qed.

Lemma lookup_i_ge cs b st i : stack_ok cs b st -> b <= i -> lookup_i st i = None.
Proof.
  intros Hok Hb. destruct (lookup_i st i) as [[v j]|] eqn:E; [|reflexivity].
  apply lookup_i_some in E. destruct E as [Hin Hj]. cbn in Hj. subst j.
  pose proof (stack_ok_lt _ _ _ _ _ Hok Hin). lia.
Qed.

Lemma lookup_i_head v i rest : lookup_i ((v, i) :: rest) i = Some (v, i).
Proof. unfold lookup_i. cbn. rewrite Nat.eqb_refl. reflexivity. Qed.

Lemma lookup_i_tail v j rest i : i <> j -> lookup_i ((v, j) :: rest) i = lookup_i rest i.
Proof.
  intros H. unfold lookup_i. cbn.
  replace (j =? i) with false by (symmetry; apply Nat.eqb_neq; lia). reflexivity.
Qed.

Lemma get_spec_lookup s a n : Abs s a -> get s n = slookup a n.
Proof. intros [_ H]. unfold get. rewrite H, slookup_proj. reflexivity. Qed.

Lemma lookup_innermost_lemma s n v :
  Inv s ->
  (get s n = Some v <->
   exists i, entry s n i = Some v /\ forall j, i < j -> entry s n j = None).
Proof.
  intros [_ _ Hs]. specialize (Hs n). unfold get.
  setoid_rewrite entry_lookup_i.
  destruct (stack_of s n) as [|[v0 i0] rest] eqn:E.
  - split; [discriminate|]. intros (i & H & _). discriminate.
  - cbn in Hs. destruct Hs as (H1 & H2 & _). split.
    + intros [= ->]. exists i0. rewrite lookup_i_head. split; [reflexivity|].
      intros j Hj. rewrite lookup_i_tail by lia.
      rewrite (lookup_i_ge _ _ _ j H2) by lia. reflexivity.
    + intros (i & Hi & Hall).
      destruct (Nat.eq_dec i i0) as [->|Hne].
      * rewrite lookup_i_head in Hi. exact Hi.
      * rewrite lookup_i_tail in Hi by exact Hne.
        destruct (lookup_i rest i) as [[w k]|] eqn:El; [|discriminate].
        apply lookup_i_some in El. destruct El as [Hin Hk]. cbn in Hk; subst k.
        pose proof (stack_ok_lt _ _ _ _ _ H2 Hin) as Hlt.
        specialize (Hall i0 Hlt). rewrite lookup_i_head in Hall. discriminate.
Qed.

Lemma get_none_lemma s n : Inv s -> (get s n = None <-> forall i, entry s n i = None).
Proof.
  intros _. unfold get. setoid_rewrite entry_lookup_i.
  destruct (stack_of s n) as [|[v0 i0] rest].
  - split; [intros _ i; reflexivity|reflexivity].
  - split; [discriminate|]. intros H. specialize (H i0). rewrite lookup_i_head in H. discriminate.
Qed.

(* ---- pop ---------------------------------------------------------------------------- *)

Lemma pop_lemma s s' r :
  Inv s -> step s OPop = Some (s', r) ->
  ctxs s' = removelast (ctxs s) /\
  (forall n i, i < length (ctxs s') -> entry s' n i = entry s n i) /\
  (forall n i, length (ctxs s') <= i -> entry s' n i = None) /\
  positional_params s' = positional_params (mkVS (vars s) (removelast (ctxs s))).
Proof.
  intros HI Hstep. pose proof (inv_step _ _ _ _ HI Hstep) as HI'.
  rewrite step_pop in Hstep. destruct (length (ctxs s) <? 2) eqn:El; [discriminate|].
  injection Hstep as <- <-. cbn [ctxs]. split; [reflexivity|]. split; [|split].
  - intros n i Hi. rewrite !entry_lookup_i. rewrite stack_of_pop by (destruct HI; assumption).
    rewrite <- removelast_length.
    destruct (stack_of s n) as [|[v j] rest]; [reflexivity|]. cbn [pop_if_ge].
    destruct (length (removelast (ctxs s)) <=? j) eqn:E; [|reflexivity].
    apply Nat.leb_le in E. rewrite lookup_i_tail by lia. reflexivity.
  - intros n i Hi. rewrite entry_lookup_i.
    destruct HI' as [_ _ Hs']. specialize (Hs' n). cbn [ctxs] in Hs'.
    rewrite (lookup_i_ge _ _ _ i Hs' Hi). reflexivity.
  - reflexivity.
Qed.

(* ---- read-only variables ------------------------------------------------------------- *)

Lemma first_ro_in u w i : In (w, i) u -> is_ro w = true -> first_ro u <> None.
Proof.
  induction u as [|[v j] u IH]; cbn; [intros []|].
  intros [[= -> ->]|Hin] Hro.
  - unfold is_ro in Hro. destruct (vro w); [discriminate|discriminate].
  - destruct (vro v); [discriminate|]. apply IH; assumption.
Qed.

Lemma lookup_i_app u l i : lookup_i (u ++ l) i =
  match lookup_i u i with Some p => Some p | None => lookup_i l i end.
Proof.
  unfold lookup_i. induction u as [|p u IH]; cbn; [reflexivity|].
  destruct (snd p =? i); [reflexivity|exact IH].
Qed.

(* with a carried variable the loop always delivers that variable on top *)
Lemma gon_loop_carried cs b ci r st st1 :
  stack_ok cs b st -> ci < b ->
  gon_loop cs ci (Some r) st = Some st1 ->
  exists i' rest1, st1 = (r, i') :: rest1 /\ i' < b.
Proof.
  revert b r. induction st as [|[v j] rest IH]; intros b r Hok Hci; cbn [gon_loop].
  - intros [= <-]. eauto.
  - destruct (j <? ci); [intros [= <-]; eauto|].
    cbn in Hok. destruct Hok as (H1 & H2 & _).
    destruct (nth_error cs j) as [[ps|]|]; [|intros H|discriminate].
    + intros [= <-]. cbn [or_var]. eauto.
    + cbn [or_var] in H.
      assert (Hb : stack_ok cs b rest) by (eapply stack_ok_weaken; [|exact H2]; lia).
      exact (IH b r Hb Hci H).
Qed.

Lemma gon_loop_ro cs b ci removed st st1 i w :
  stack_ok cs b st -> carry_ok removed st -> ci < b ->
  (exists ps, nth_error cs ci = Some (CRegular ps)) ->
  gon_loop cs ci removed st = Some st1 ->
  lookup_i st i = Some (w, i) -> is_ro w = true ->
  exists i' w', i' <= i /\ lookup_i st1 i' = Some (w', i') /\ same_attrs w' w /\
                (nth_error cs i = Some CVolatile \/ i' = i).
Proof.
  intros Hok Hc Hci [ps0 Hreg]. revert b removed Hok Hc Hci st1.
  induction st as [|[v j] rest IH]; intros b removed Hok Hc Hci st1; cbn [gon_loop].
  - intros _ H; discriminate.
  - cbn in Hok. destruct Hok as (H1 & H2 & H3).
    destruct (j <? ci) eqn:Elt.
    + apply Nat.ltb_lt in Elt. intros [= <-] Hl Hro.
      exists i, w. split; [lia|]. split; [|split; [apply same_attrs_refl|right; reflexivity]].
      apply lookup_i_some in Hl as Hl'. destruct Hl' as [Hin _].
      assert (i <= j).
      { destruct Hin as [[= _ ->]|Hin]; [lia|]. pose proof (stack_ok_lt _ _ _ _ _ H2 Hin). lia. }
      rewrite lookup_i_tail by lia. exact Hl.
    + apply Nat.ltb_ge in Elt.
      destruct (nth_error cs j) as [[ps|]|] eqn:En; [| |discriminate].
      * intros [= <-] Hl Hro.
        destruct (Nat.eq_dec i j) as [->|Hne].
        -- rewrite lookup_i_head in Hl. injection Hl as ->.
           exists j, (or_var removed w). split; [lia|]. rewrite lookup_i_head.
           split; [reflexivity|]. split; [|right; reflexivity].
           destruct removed as [r|]; cbn; [|apply same_attrs_refl]. apply Hc. exact Hro.
        -- rewrite lookup_i_tail in Hl by exact Hne.
           exists i, w. split; [lia|]. rewrite lookup_i_tail by exact Hne.
           split; [exact Hl|]. split; [apply same_attrs_refl|right; reflexivity].
      * intros Hloop Hl Hro.
        assert (Hb : stack_ok cs b rest) by (eapply stack_ok_weaken; [|exact H2]; lia).
        assert (Hc' : carry_ok (Some (or_var removed v)) rest).
        { unfold carry_ok. destruct rest as [|[w0 j0] rest']; [trivial|].
          intros Hw. first [specialize (H3 En Hw) | specialize (H3 eq_refl Hw)].
          destruct removed as [r|]; cbn; [|exact H3].
          cbn in Hc. eapply same_attrs_trans; [|exact H3].
          apply Hc. rewrite (same_attrs_ro _ _ H3). exact Hw. }
        destruct (Nat.eq_dec i j) as [->|Hne].
        -- rewrite lookup_i_head in Hl. injection Hl as ->.
           assert (Hcij : ci < j).
           { (* ci is regular, j is volatile *)
             destruct (Nat.eq_dec ci j) as [Heq|]; [|lia].
             rewrite Heq in Hreg. rewrite Hreg in En. discriminate. }
           destruct (gon_loop_carried _ _ _ _ _ _ H2 Hcij Hloop) as (i' & rest1 & -> & Hi').
           exists i', (or_var removed w). split; [lia|]. rewrite lookup_i_head.
           split; [reflexivity|]. split; [|left; exact En].
           destruct removed as [r|]; cbn; [|apply same_attrs_refl]. apply Hc. exact Hro.
        -- rewrite lookup_i_tail in Hl by exact Hne.
           exact (IH b _ Hb Hc' Hci st1 Hloop Hl Hro).
Qed.

Lemma entry_lookup_some s n i w : entry s n i = Some w -> lookup_i (stack_of s n) i = Some (w, i).
Proof.
  rewrite entry_lookup_i. destruct (lookup_i (stack_of s n) i) as [[v j]|] eqn:E; [|discriminate].
  intros [= ->]. apply lookup_i_some in E. destruct E as [_ E]. cbn in E. subst j. reflexivity.
Qed.

Lemma gon_stack_ro cs sc st st1 i w ps0 cs0 :
  cs = CRegular ps0 :: cs0 ->
  stack_ok cs (length cs) st ->
  get_or_new_stack cs sc st = Some st1 ->
  lookup_i st i = Some (w, i) -> is_ro w = true ->
  exists i' w', i' <= i /\ lookup_i st1 i' = Some (w', i') /\ same_attrs w' w /\
                (nth_error cs i = Some CVolatile \/ i' = i).
Proof.
  intros Ecs Hok. destruct sc; cbn [get_or_new_stack].
  - intros Hg. refine (gon_loop_ro _ _ _ None _ _ _ _ Hok I _ _ Hg).
    + subst; cbn; lia.
    + subst; cbn; eauto.
  - destruct (topreg cs) as [ci|] eqn:Et; [|discriminate].
    destruct (topreg_spec _ _ Et) as (H1 & H2 & _).
    intros Hg. exact (gon_loop_ro _ _ _ None _ _ _ _ Hok I H1 H2 Hg).
  - unfold gon_volatile. destruct cs as [|k0 ks] eqn:Ek; [discriminate|]. rewrite <- Ek in *.
    destruct (nth_error cs (length cs - 1)) as [[|]|]; try discriminate.
    destruct st as [|[v j] rest]; [intros _ H; discriminate|].
    destruct (j =? length cs - 1) eqn:Ej.
    + intros [= <-] Hl Hro. exists i, w. split; [lia|]. split; [exact Hl|].
      split; [apply same_attrs_refl|right; reflexivity].
    + apply Nat.eqb_neq in Ej. intros [= <-] Hl Hro.
      exists i, w. split; [lia|]. split; [|split; [apply same_attrs_refl|right; reflexivity]].
      apply lookup_i_some in Hl as Hl'. destruct Hl' as [Hin _].
      pose proof (stack_ok_lt _ _ _ _ _ Hok Hin) as Hlt.
      assert (Hj : j < length cs) by (cbn in Hok; tauto).
      assert (i <= j).
      { destruct Hin as [[= _ ->]|Hin]; [lia|].
        cbn in Hok. destruct Hok as (_ & H2 & _). pose proof (stack_ok_lt _ _ _ _ _ H2 Hin). lia. }
      rewrite lookup_i_tail by lia. exact Hl.
Qed.

Lemma readonly_lemma s o s' r n i w :
  Inv s -> step s o = Some (s', r) ->
  entry s n i = Some w -> is_ro w = true ->
  (o = OPop /\ S i = length (ctxs s)) \/
  exists i' w', i' <= i /\ entry s' n i' = Some w' /\ same_attrs w' w /\
                (nth_error (ctxs s) i = Some CVolatile \/ i' = i).
Proof.
  intros HI Hstep He Hro.
  assert (Hsame : entry s' n i = entry s n i ->
          exists i' w', i' <= i /\ entry s' n i' = Some w' /\ same_attrs w' w /\
                (nth_error (ctxs s) i = Some CVolatile \/ i' = i)).
  { intros H. exists i, w. split; [lia|]. split; [rewrite H; exact He|].
    split; [apply same_attrs_refl|right; reflexivity]. }
  pose proof HI as [Hk (ps0 & cs0 & Ecs) Hs].
  pose proof (entry_lookup_some _ _ _ _ He) as Hl.
  assert (Hilt : i < length (ctxs s)).
  { apply lookup_i_some in Hl. destruct Hl as [Hin _]. eapply stack_ok_lt; [apply Hs|exact Hin]. }
  destruct o as [c| |n' sc ms|n' sc|ps].
  - cbn [step] in Hstep. injection Hstep as <- <-. right. apply Hsame. reflexivity.
  - destruct (Nat.eq_dec (S i) (length (ctxs s))) as [Heq|Hne]; [left; split; [reflexivity|exact Heq]|].
    right. apply Hsame.
    destruct (pop_lemma _ _ _ HI Hstep) as (Hc' & Hlow & _).
    apply Hlow. rewrite Hc', removelast_length. lia.
  - right. cbn [step] in Hstep.
    destruct (get_or_new_stack (ctxs s) sc (stack_of s n')) as [[|[v i0] rest]|] eqn:Eg; try discriminate.
    destruct (mutate_all v ms) as [v' rs] eqn:Em. injection Hstep as <- <-.
    destruct (str_eq_dec n n') as [<-|Hne].
    + destruct (gon_stack_ro _ _ _ _ _ _ _ _ Ecs (Hs n) Eg Hl Hro) as (i' & w' & Hle & Hl' & Hsa & Hor).
      exists i'. rewrite entry_lookup_i, stack_of_with_same.
      destruct (Nat.eq_dec i' i0) as [->|Hne].
      * rewrite lookup_i_head in Hl'. injection Hl' as ->.
        exists v'. rewrite lookup_i_head. split; [exact Hle|]. split; [reflexivity|].
        split; [|exact Hor].
        eapply same_attrs_trans; [|exact Hsa].
        pose proof (mutate_all_ro w' ms) as H. rewrite Em in H. apply H.
        rewrite (same_attrs_ro _ _ Hsa). exact Hro.
      * exists w'. rewrite lookup_i_tail by exact Hne. rewrite lookup_i_tail in Hl' by exact Hne.
        rewrite Hl'. auto.
    + apply Hsame. unfold entry. rewrite stack_of_with_other by exact Hne. reflexivity.
  - right. cbn [step] in Hstep.
    destruct (assoc n' (vars s)) as [st|] eqn:Ea; [|injection Hstep as <- <-; apply Hsame; reflexivity].
    destruct (index_of_context sc (ctxs s)) as [ci|]; [|discriminate].
    pose proof (span_ge_app ci st) as Happ.
    destruct (span_ge ci st) as [u l] eqn:Es. cbn [fst snd] in Happ.
    destruct (first_ro u) eqn:Ef; injection Hstep as <- <-; [apply Hsame; reflexivity|].
    destruct (str_eq_dec n n') as [<-|Hne].
    + apply Hsame. rewrite !entry_lookup_i, stack_of_with_same.
      rewrite (stack_of_assoc _ _ _ Ea), <- Happ, lookup_i_app.
      destruct (lookup_i u i) as [[w0 j]|] eqn:Elu; [|reflexivity].
      exfalso. rewrite (stack_of_assoc _ _ _ Ea), <- Happ, lookup_i_app, Elu in Hl.
      injection Hl as -> ->. apply lookup_i_some in Elu. destruct Elu as [Hin _].
      exact (first_ro_in _ _ _ Hin Hro Ef).
    + apply Hsame. unfold entry. rewrite stack_of_with_other by exact Hne. reflexivity.
  - right. cbn [step] in Hstep. destruct (topreg (ctxs s)); [|discriminate].
    injection Hstep as <- <-. apply Hsame. reflexivity.
Qed.

(* a read-only variable of the base context keeps its value through every history *)
Lemma readonly_global_lemma ops : forall s s' n w,
  Inv s -> run s ops = Some s' ->
  entry s n 0 = Some w -> is_ro w = true ->
  exists w', entry s' n 0 = Some w' /\ same_attrs w' w.
Proof.
  induction ops as [|o ops IH]; intros s s' n w HI; cbn [run].
  - intros [= <-] He _. exists w. split; [exact He|apply same_attrs_refl].
  - destruct (step s o) as [[s1 r]|] eqn:Es; [|discriminate].
    intros Hrun He Hro.
    destruct (readonly_lemma _ _ _ _ _ _ _ HI Es He Hro) as [[-> Hlen]|(i' & w' & Hle & He' & Hsa & _)].
    + exfalso. rewrite step_pop in Es. rewrite <- Hlen in Es. cbn in Es. discriminate.
    + assert (i' = 0) by lia. subst i'.
      assert (Hro' : is_ro w' = true) by (rewrite (same_attrs_ro _ _ Hsa); exact Hro).
      destruct (IH s1 s' n w' (inv_step _ _ _ _ HI Es) Hrun He' Hro') as (w'' & H1 & H2).
      exists w''. split; [exact H1|]. eapply same_attrs_trans; eassumption.
Qed.

(* ---- the environment ------------------------------------------------------------------- *)

Lemma in_vars_assoc s n st : Inv s -> (In (n, st) (vars s) <-> assoc n (vars s) = Some st).
Proof.
  intros [Hk _ _]. split; [apply in_assoc_nodup; exact Hk|apply assoc_in].
Qed.

Lemma env_lemma s x :
  Inv s ->
  (In x (env_c_strings s) <-> exists n v, get s n = Some v /\ env_entry n v = Some x).
Proof.
  intros HI. unfold env_c_strings. rewrite in_flat_map. split.
  - intros ([n st] & Hin & Hx). cbn [fst snd] in Hx.
    destruct st as [|[v i] rest]; [destruct Hx|].
    destruct (env_entry n v) as [y|] eqn:Ee; [|destruct Hx].
    destruct Hx as [<-|[]].
    exists n, v. split; [|exact Ee].
    apply (in_vars_assoc _ _ _ HI) in Hin. unfold get, stack_of. rewrite Hin. reflexivity.
  - intros (n & v & Hg & Ee). unfold get in Hg.
    destruct (stack_of s n) as [|[v0 i] rest] eqn:Est; [discriminate|]. injection Hg as ->.
    exists (n, (v, i) :: rest). split.
    + apply (in_vars_assoc _ _ _ HI). unfold stack_of in Est.
      destruct (assoc n (vars s)); [f_equal; exact Est|discriminate].
    + cbn [fst snd]. rewrite Ee. left; reflexivity.
Qed.

Lemma existsb_false_notin c (x : str) : existsb (N.eqb c) x = false -> ~ In c x.
Proof.
  intros H Hin. assert (existsb (N.eqb c) x = true); [|congruence].
  apply existsb_exists. exists c. split; [exact Hin|apply N.eqb_refl].
Qed.

Lemma env_entry_meaning n v x :
  env_entry n v = Some x <->
  vexp v = true /\ ~ In EQ n /\
  exists val, vval v = Some val /\ x = n ++ EQ :: value_string val /\ ~ In 0%N x.
Proof.
  unfold env_entry, has_char. split.
  - destruct (vexp v); cbn [negb orb]; [|discriminate].
    destruct (existsb (N.eqb EQ) n) eqn:E1; [discriminate|].
    destruct (vval v) as [val|]; [|discriminate].
    destruct (existsb (N.eqb 0%N) (n ++ EQ :: value_string val)) eqn:E2; [discriminate|].
    intros [= <-]. split; [reflexivity|]. split; [apply existsb_false_notin; exact E1|].
    exists val. split; [reflexivity|]. split; [reflexivity|apply existsb_false_notin; exact E2].
  - intros (He & Hn & val & Hv & -> & H0). rewrite He, Hv. cbn [negb orb].
    destruct (existsb (N.eqb EQ) n) eqn:E1.
    { exfalso. apply existsb_exists in E1. destruct E1 as (c & Hc & Hcc).
      apply N.eqb_eq in Hcc. subst c. exact (Hn Hc). }
    destruct (existsb (N.eqb 0%N) (n ++ EQ :: value_string val)) eqn:E2; [|reflexivity].
    exfalso. apply existsb_exists in E2. destruct E2 as (c & Hc & Hcc).
    apply N.eqb_eq in Hcc. subst c. exact (H0 Hc).
Qed.

(* `name=value` strings of different names differ *)
Lemma env_string_name (n1 n2 v1 v2 : str) :
  ~ In EQ n1 -> ~ In EQ n2 -> n1 ++ EQ :: v1 = n2 ++ EQ :: v2 -> n1 = n2.
Proof.
  revert n2. induction n1 as [|c n1 IH]; intros [|d n2]; cbn; intros H1 H2 E.
  - reflexivity.
  - injection E as E _. exfalso. apply H2. left. symmetry. exact E.
  - injection E as E _. exfalso. apply H1. left. exact E.
  - injection E as -> E. f_equal. apply IH; [intuition|intuition|exact E].
Qed.


Lemma NoDup_app {A} (l1 l2 : list A) :
  NoDup l1 -> NoDup l2 -> (forall x, In x l1 -> ~ In x l2) -> NoDup (l1 ++ l2).
Proof.
  induction l1 as [|x l1 IH]; cbn; intros H1 H2 H; [exact H2|].
  inversion H1 as [|? ? Hn Hd]; subst. constructor.
  - rewrite in_app_iff. intros [Hi|Hi]; [exact (Hn Hi)|exact (H x (or_introl eq_refl) Hi)].
  - apply IH; [exact Hd|exact H2|]. intros y Hy. apply H. right; exact Hy.
Qed.

Lemma nodup_flat_map {A B} (f : A -> list B) (l : list A) :
  NoDup l ->
  (forall p, NoDup (f p)) ->
  (forall p q x, In p l -> In q l -> In x (f p) -> In x (f q) -> p = q) ->
  NoDup (flat_map f l).
Proof.
  induction l as [|p l IH]; cbn; intros Hd Hf Hinj; [constructor|].
  inversion Hd as [|? ? Hn Hd']; subst.
  apply NoDup_app; [apply Hf| |].
  - apply IH; [exact Hd'|exact Hf|]. intros p' q x Hp Hq. apply Hinj; right; assumption.
  - intros x Hx Hx'. apply in_flat_map in Hx'. destruct Hx' as (q & Hq & Hxq).
    assert (p = q) by (eapply Hinj; [left; reflexivity|right; exact Hq|exact Hx|exact Hxq]).
    subst q. exact (Hn Hq).
Qed.

Lemma nodup_of_keys {A} (l : list (name * A)) : NoDup (map fst l) -> NoDup l.
Proof.
  induction l as [|p l IH]; cbn; intros H; [constructor|].
  inversion H as [|? ? Hn Hd]; subst. constructor; [|apply IH; exact Hd].
  intros Hin. apply Hn. apply in_map. exact Hin.
Qed.

Lemma env_nodup_lemma s : Inv s -> NoDup (env_c_strings s).
Proof.
  intros HI. pose proof HI as [Hk _ _]. unfold env_c_strings. apply nodup_flat_map.
  - apply nodup_of_keys; exact Hk.
  - intros [n st]. cbn [fst snd]. destruct st as [|[v i] rest]; [constructor|].
    destruct (env_entry n v); [|constructor]. constructor; [intros []|constructor].
  - intros [n1 st1] [n2 st2] x H1 H2. cbn [fst snd].
    destruct st1 as [|[v1 i1] r1]; [intros []|]. destruct st2 as [|[v2 i2] r2]; [intros _ []|].
    destruct (env_entry n1 v1) as [y1|] eqn:E1; [|intros []].
    destruct (env_entry n2 v2) as [y2|] eqn:E2; [|intros _ []].
    intros [<-|[]] [<-|[]].
    apply env_entry_meaning in E1. apply env_entry_meaning in E2.
    destruct E1 as (_ & Hn1 & val1 & _ & Ex1 & _). destruct E2 as (_ & Hn2 & val2 & _ & Ex2 & _).
    assert (n1 = n2).
    { apply (env_string_name n1 n2 (value_string val1) (value_string val2) Hn1 Hn2). congruence. }
    subst n2.
    apply (in_vars_assoc _ _ _ HI) in H1. apply (in_vars_assoc _ _ _ HI) in H2. congruence.
Qed.

(* ---- get_scoped, iter, positional parameters -------------------------------------------------- *)

Lemma get_scoped_sim s a n sc :
  Inv s -> Abs s a -> get_scoped s n sc = Some (s_get_scoped a n sc).
Proof.
  intros HI HA. pose proof (abs_base_reg _ _ HI HA) as Hb. destruct HA as [Hc Hst].
  unfold get_scoped, s_get_scoped, in_scope. rewrite Hc, (split_scope_index sc a Hb), Hst.
  pose proof (split_scope_app sc a) as Happ.
  destruct (split_scope sc a) as [u l]. cbn [fst snd] in *.
  rewrite <- Happ at 1. rewrite proj_app, slookup_proj. f_equal.
  destruct (proj u n) as [|[v i] st]; cbn [map app shift fst snd].
  - destruct (proj l n) as [|[v i] st] eqn:Ep; [reflexivity|].
    pose proof (proj_head_lt _ _ _ _ _ Ep).
    replace (length l <=? i) with false by (symmetry; apply Nat.leb_gt; lia). reflexivity.
  - replace (length l <=? i + length l) with true by (symmetry; apply Nat.leb_le; lia). reflexivity.
Qed.

Lemma iter_model_lemma s sc :
  Inv s ->
  exists l, iter s sc = Some l /\ NoDup (map fst l) /\
            forall n v, In (n, v) l <-> get_scoped s n sc = Some (Some v).
Proof.
  intros HI. pose proof HI as [Hk (ps0 & cs0 & Ecs) _].
  unfold iter, get_scoped.
  assert (Hidx : exists mn, index_of_context sc (ctxs s) = Some mn).
  { destruct sc; cbn; [eauto| |]; destruct (topreg_some _ _ _ Ecs) as [i ->]; cbn; eauto. }
  destruct Hidx as [mn ->]. eexists; split; [reflexivity|]. split.
  - clear - Hk. induction (vars s) as [|[m st] l IH]; cbn; [constructor|].
    inversion Hk as [|? ? Hn Hd]; subst. specialize (IH Hd).
    assert (Hsub : forall x, In x (map fst (flat_map
              (fun p : name * list vic => match snd p with
                 | [] => [] | (v, i) :: _ => if mn <=? i then [(fst p, v)] else [] end) l)) ->
              In x (map fst l)).
    { clear. intros x. induction l as [|[k st'] l IH]; cbn; [trivial|].
      rewrite map_app, in_app_iff. intros [H|H]; [|right; exact (IH H)].
      destruct st' as [|[v i] r]; [destruct H|]. destruct (mn <=? i); [|destruct H].
      destruct H as [<-|[]]. left; reflexivity. }
    destruct st as [|[v i] r]; [exact IH|]. destruct (mn <=? i); [|exact IH].
    cbn. constructor; [|exact IH]. intros H. apply Hn. apply Hsub. exact H.
  - intros n v. rewrite in_flat_map. split.
    + intros ([m st] & Hin & Hx). cbn [fst snd] in Hx.
      destruct st as [|[v0 i] r]; [destruct Hx|].
      destruct (mn <=? i) eqn:E; [|destruct Hx]. destruct Hx as [[= -> ->]|[]].
      apply (in_vars_assoc _ _ _ HI) in Hin. unfold stack_of. rewrite Hin, E. reflexivity.
    + unfold stack_of. destruct (assoc n (vars s)) as [st|] eqn:Ea; [|discriminate].
      destruct st as [|[v0 i] r]; [discriminate|].
      destruct (mn <=? i) eqn:E; [|discriminate]. intros [= ->].
      exists (n, (v, i) :: r). split; [apply (in_vars_assoc _ _ _ HI); exact Ea|].
      cbn [fst snd]. rewrite E. left; reflexivity.
Qed.

Lemma params_sim s a : Inv s -> Abs s a -> positional_params s = s_params a.
Proof.
  intros HI HA. pose proof (abs_base_reg _ _ HI HA) as Hb. destruct HA as [Hc _].
  unfold positional_params. rewrite Hc, topreg_kinds.
  destruct (base_reg_first_reg _ Hb) as [i Hf]. rewrite Hf.
  apply s_params_sim. exact Hf.
Qed.

(* ---- a visible read-only variable refuses unset and assignment, with or without a value ------- *)

Lemma span_ge_zero st : span_ge 0 st = (st, []).
Proof.
  induction st as [|[v j] rest IH]; cbn [span_ge]; [reflexivity|].
  cbn [Nat.leb]. rewrite IH. reflexivity.
Qed.

Lemma get_stack s n w : get s n = Some w -> exists i rest, stack_of s n = (w, i) :: rest.
Proof.
  unfold get. destruct (stack_of s n) as [|[v i] rest]; [discriminate|]. intros [= ->]. eauto.
Qed.

Lemma unset_refused_lemma s n w loc :
  get s n = Some w -> vro w = Some loc ->
  step s (OUnset n SGlobal) = Some (s, RUnsetErr loc).
Proof.
  intros Hg Hro. destruct (get_stack _ _ _ Hg) as (i & rest & Hst).
  cbn [step]. unfold stack_of in Hst. destruct (assoc n (vars s)) as [st|]; [|discriminate]. subst st.
  cbn [index_of_context]. rewrite span_ge_zero. cbn [first_ro]. rewrite Hro. reflexivity.
Qed.

Lemma assign_refused_lemma s n w loc x l :
  Inv s -> get s n = Some w -> vro w = Some loc ->
  exists s', step s (OGetOrNew n SGlobal [MAssign x l]) = Some (s', RMuts [AErr loc]).
Proof.
  intros [_ (ps0 & cs0 & Ecs) Hs] Hg Hro. destruct (get_stack _ _ _ Hg) as (i & rest & Hst).
  specialize (Hs n). rewrite Hst in Hs.
  cbn [step get_or_new_stack]. rewrite Hst. cbn [gon_loop].
  replace (i <? 0) with false by (symmetry; apply Nat.ltb_ge; lia).
  pose proof Hs as Hs'. cbn in Hs'. destruct Hs' as (Hi & Hrest & _).
  destruct (nth_error (ctxs s) i) as [[ps|]|] eqn:En.
  - cbn [or_var mutate_all mutate]. rewrite Hro. eauto.
  - cbn [or_var].
    assert (H0 : 0 < length (ctxs s)) by (rewrite Ecs; cbn; lia).
    assert (Hb : stack_ok (ctxs s) (length (ctxs s)) rest) by (eapply stack_ok_weaken; [|exact Hrest]; lia).
    destruct (gon_loop (ctxs s) 0 (Some w) rest) as [st1|] eqn:El.
    + destruct (gon_loop_carried _ _ _ _ _ _ Hb H0 El) as (i' & rest1 & -> & _).
      cbn [mutate_all mutate]. rewrite Hro. eauto.
    + exfalso. clear - Hb El. revert El. generalize (Some w) as removed.
      induction rest as [|[v j] rest IH]; intros removed; cbn [gon_loop]; [discriminate|].
      replace (j <? 0) with false by (symmetry; apply Nat.ltb_ge; lia).
      pose proof Hb as Hb'. cbn in Hb'. destruct Hb' as (Hj & Hr & _).
      destruct (nth_error (ctxs s) j) as [[ps|]|] eqn:En; [discriminate| |].
      * apply IH. eapply stack_ok_weaken; [|exact Hr]. lia.
      * apply nth_error_None in En. lia.
  - exfalso. apply nth_error_None in En. lia.
Qed.
