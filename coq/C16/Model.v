(* C16 — executable model of yash-env/src/variable.rs `VariableSet`
   (+ variable/main.rs `VariableRefMut`, variable/guard.rs) and of the caller
   rules of yash-semantics/src/command/simple_command*.rs.

   The Rust data structure is mirrored, not tidied up:
     - `all_variables : HashMap<String, Vec<VariableInContext>>` is an
       association list from names to *per-name stacks* of
       (variable, context_index).  A Rust `Vec` stack is written here with its
       LAST element (the top, `stack.last()`) as the HEAD of the list; so the
       context indices of a normalised stack are strictly descending.
     - `contexts : Vec<Context>` is a list in the Rust order (base context
       first, `push` appends).
   Hash-map iteration order is not observable (the harness sorts, the checks
   compare as sets), so any order of the association list will do.
   Rust panic sites (`expect`, `assert_eq!`, `assert_ne!`, indexing) make an
   operation return [None].

   `stack.partition_point(|vic| vic.context_index < i)` is a binary search;
   on a stack sorted by context index (invariant [Inv], proved inductive) it
   is the number of entries below [i]; with the top-first lists used here
   `stack[index..]` is the longest prefix whose indices are [>= i]
   ([span_ge]).

   `Quirk`: a variable carries the flag "has the LineNumber quirk"; the quirk
   changes what `Variable::expand` yields (not modelled), never what the
   variable set stores.  Not modelled: `last_modified_location` of positional
   parameters, the text of locations (a location is the number the harness
   put into `Location::dummy`). *)
From Yv Require Import Common.Base.

Definition name := str.

Inductive value := Scalar (s : str) | Array (l : list str).

(* yash_env::variable::Variable *)
Record var := mkVar {
  vval : option value;          (* value *)
  vloc : option N;              (* last_assigned_location *)
  vexp : bool;                  (* is_exported *)
  vro : option N;               (* read_only_location *)
  vquirk : bool                 (* quirk = Some(Quirk::LineNumber) (the only quirk there is) *)
}.

Definition default_var : var := mkVar None None false None false.
Definition is_ro (v : var) : bool := match vro v with Some _ => true | None => false end.

(* yash_env::variable::Context *)
Inductive ctx := CRegular (params : list str) | CVolatile.
Definition is_regular (c : ctx) : bool := match c with CRegular _ => true | CVolatile => false end.

(* yash_env::variable::Scope *)
Inductive scope := SGlobal | SLocal | SVolatile.

(* VariableInContext, as a pair *)
Definition vic := (var * nat)%type.

Record vset := mkVS {
  vars : list (name * list vic);     (* all_variables *)
  ctxs : list ctx                    (* contexts *)
}.

(* VariableSet::default() *)
Definition init : vset := mkVS [] [CRegular []].

(* ---- association lists keyed by names --------------------------------- *)

Fixpoint assoc {A} (n : name) (l : list (name * A)) : option A :=
  match l with
  | [] => None
  | (m, x) :: l => if str_eqb m n then Some x else assoc n l
  end.

Fixpoint set_assoc {A} (n : name) (x : A) (l : list (name * A)) : list (name * A) :=
  match l with
  | [] => [(n, x)]
  | (m, y) :: l => if str_eqb m n then (n, x) :: l else (m, y) :: set_assoc n x l
  end.

Definition stack_of (s : vset) (n : name) : list vic :=
  match assoc n (vars s) with Some st => st | None => [] end.

Definition with_stack (s : vset) (n : name) (st : list vic) : vset :=
  mkVS (set_assoc n st (vars s)) (ctxs s).

(* ---- contexts ------------------------------------------------------------ *)

(* index_of_topmost_regular_context: `rposition` of a regular context;
   [None] is the `expect` panic. *)
Fixpoint topreg (c : list ctx) : option nat :=
  match c with
  | [] => None
  | k :: c' =>
      match topreg c' with
      | Some i => Some (S i)
      | None => if is_regular k then Some 0 else None
      end
  end.

Definition index_of_context (sc : scope) (c : list ctx) : option nat :=
  match sc with
  | SGlobal => Some 0
  | SLocal => topreg c
  | SVolatile => option_map S (topreg c)
  end.

(* ---- get, get_scoped ------------------------------------------------------- *)

Definition get (s : vset) (n : name) : option var :=
  match stack_of s n with (v, _) :: _ => Some v | [] => None end.

Definition get_scoped (s : vset) (n : name) (sc : scope) : option (option var) :=
  match index_of_context sc (ctxs s) with
  | None => None
  | Some index =>
      Some match stack_of s n with
           | (v, i) :: _ => if index <=? i then Some v else None
           | [] => None
           end
  end.

(* ---- get_or_new_impl ------------------------------------------------------- *)

Definition or_var (o : option var) (v : var) : var :=
  match o with Some r => r | None => v end.

(* the `while let Some(var) = stack.last_mut()` loop of the Global | Local
   branch, followed by the `stack.push` after it *)
Fixpoint gon_loop (cs : list ctx) (ci : nat) (removed : option var) (st : list vic)
  : option (list vic) :=
  match st with
  | [] => Some [(or_var removed default_var, ci)]
  | (v, i) :: rest =>
      if i <? ci then Some ((or_var removed default_var, ci) :: st)
      else match nth_error cs i with
           | None => None                               (* self.contexts[i] out of bounds *)
           | Some (CRegular _) => Some ((or_var removed v, i) :: rest)
           | Some CVolatile => gon_loop cs ci (Some (or_var removed v)) rest
           end
  end.

Definition gon_volatile (cs : list ctx) (st : list vic) : option (list vic) :=
  match cs with
  | [] => None                                          (* len() - 1 overflows *)
  | _ :: _ =>
      let ci := length cs - 1 in
      match nth_error cs ci with
      | Some CVolatile =>
          match st with
          | (v, i) :: _ => if i =? ci then Some st else Some ((v, ci) :: st)
          | [] => Some [(default_var, ci)]
          end
      | _ => None                                       (* assert_eq!(.., Context::Volatile) *)
      end
  end.

Definition get_or_new_stack (cs : list ctx) (sc : scope) (st : list vic) : option (list vic) :=
  match sc with
  | SGlobal => gon_loop cs 0 None st
  | SLocal => match topreg cs with
              | Some ci => gon_loop cs ci None st
              | None => None
              end
  | SVolatile => gon_volatile cs st
  end.

(* ---- VariableRefMut ---------------------------------------------------------- *)

Inductive mutation :=
| MAssign (v : value) (loc : option N)     (* assign(value, location) *)
| MExport (b : bool)                       (* export(b) *)
| MReadOnly (loc : N)                      (* make_read_only(location) *)
| MSetQuirk (q : bool).                    (* set_quirk(Some(LineNumber)) / set_quirk(None) *)

Inductive mres :=
| AOk (old : option value) (oldloc : option N)   (* Ok((old_value, old_location)) *)
| AErr (roloc : N)                               (* Err(AssignError{read_only_location,..}) *)
| MUnit.

Definition mutate (v : var) (m : mutation) : var * mres :=
  match m with
  | MAssign x loc =>
      match vro v with
      | Some r => (v, AErr r)
      | None => (mkVar (Some x) loc (vexp v) (vro v) (vquirk v), AOk (vval v) (vloc v))
      end
  | MExport b => (mkVar (vval v) (vloc v) b (vro v) (vquirk v), MUnit)
  | MReadOnly loc =>
      (mkVar (vval v) (vloc v) (vexp v) (Some (match vro v with Some r => r | None => loc end)) (vquirk v),
       MUnit)
  | MSetQuirk q => (mkVar (vval v) (vloc v) (vexp v) (vro v) q, MUnit)
  end.

Fixpoint mutate_all (v : var) (ms : list mutation) : var * list mres :=
  match ms with
  | [] => (v, [])
  | m :: ms =>
      let (v1, r) := mutate v m in
      let (v2, rs) := mutate_all v1 ms in
      (v2, r :: rs)
  end.

(* ---- unset --------------------------------------------------------------------- *)

(* the entries of a top-first stack with context index >= i (`stack[index..]`,
   top first) and the others *)
Fixpoint span_ge (i : nat) (st : list vic) : list vic * list vic :=
  match st with
  | [] => ([], [])
  | (v, j) :: rest =>
      if i <=? j then let (u, l) := span_ge i rest in ((v, j) :: u, l)
      else ([], st)
  end.

(* `stack[index..].iter().rposition(is_read_only)`: the topmost read-only one *)
Fixpoint first_ro (st : list vic) : option N :=
  match st with
  | [] => None
  | (v, _) :: rest => match vro v with Some r => Some r | None => first_ro rest end
  end.

Inductive result :=
| RUnit
| RMuts (l : list mres)
| RUnset (removed : option var)
| RUnsetErr (roloc : N).

(* ---- operations ------------------------------------------------------------------ *)

Inductive op :=
| OPush (c : ctx)                                   (* push_context(c) *)
| OPop                                              (* drop of the guard / pop_context *)
| OGetOrNew (n : name) (sc : scope) (ms : list mutation)
                                                    (* get_or_new(n, sc) then the mutations *)
| OUnset (n : name) (sc : scope)                    (* unset(n, sc) *)
| OSetParams (ps : list str).                       (* positional_params_mut().values = ps *)

Definition pop_if_ge (len : nat) (st : list vic) : list vic :=
  match st with
  | (v, i) :: rest => if len <=? i then rest else st
  | [] => []
  end.

Definition is_nil {A} (l : list A) : bool := match l with [] => true | _ => false end.

Fixpoint pop_vars (len : nat) (l : list (name * list vic)) : list (name * list vic) :=
  match l with
  | [] => []
  | (n, st) :: l =>
      let st' := pop_if_ge len st in
      if is_nil st' then pop_vars len l else (n, st') :: pop_vars len l
  end.

Fixpoint set_nth {A} (i : nat) (x : A) (l : list A) : list A :=
  match l, i with
  | [], _ => []
  | _ :: l, O => x :: l
  | y :: l, S i => y :: set_nth i x l
  end.

Definition step (s : vset) (o : op) : option (vset * result) :=
  match o with
  | OPush c => Some (mkVS (vars s) (ctxs s ++ [c]), RUnit)
  | OPop =>
      match ctxs s with
      | [] | [_] => None                             (* assert_ne!(len, 1) *)
      | _ =>
          let cs := removelast (ctxs s) in
          Some (mkVS (pop_vars (length cs) (vars s)) cs, RUnit)
      end
  | OGetOrNew n sc ms =>
      match get_or_new_stack (ctxs s) sc (stack_of s n) with
      | Some ((v, i) :: rest) =>
          let (v', rs) := mutate_all v ms in
          Some (with_stack s n ((v', i) :: rest), RMuts rs)
      | _ => None
      end
  | OUnset n sc =>
      match assoc n (vars s) with
      | None => Some (s, RUnset None)
      | Some st =>
          match index_of_context sc (ctxs s) with
          | None => None
          | Some ci =>
              let (u, l) := span_ge ci st in
              match first_ro u with
              | Some r => Some (s, RUnsetErr r)
              | None => Some (with_stack s n l,
                              RUnset (match u with (v, _) :: _ => Some v | [] => None end))
              end
          end
      end
  | OSetParams ps =>
      match topreg (ctxs s) with
      | None => None
      | Some i => Some (mkVS (vars s) (set_nth i (CRegular ps) (ctxs s)), RUnit)
      end
  end.

(* ---- the remaining read-only API ------------------------------------------------- *)

(* positional_params() *)
Definition positional_params (s : vset) : option (list str) :=
  match topreg (ctxs s) with
  | None => None
  | Some i => match nth_error (ctxs s) i with
              | Some (CRegular ps) => Some ps
              | _ => None
              end
  end.

(* iter(scope), in the order of the association list *)
Definition iter (s : vset) (sc : scope) : option (list (name * var)) :=
  match index_of_context sc (ctxs s) with
  | None => None
  | Some mn =>
      Some (flat_map (fun p => match snd p with
                               | (v, i) :: _ => if mn <=? i then [(fst p, v)] else []
                               | [] => []
                               end) (vars s))
  end.

Definition EQ : N := 61.        (* '=' *)
Definition COLON : N := 58.     (* ':' *)

Definition has_char (c : N) (x : str) : bool := existsb (N.eqb c) x.

Fixpoint join_colon (l : list str) : str :=
  match l with
  | [] => []
  | [x] => x
  | x :: l => x ++ COLON :: join_colon l
  end.

Definition value_string (x : value) : str :=
  match x with Scalar v => v | Array l => join_colon l end.

(* one `name=value` string of env_c_strings, if the variable yields one *)
Definition env_entry (n : name) (v : var) : option str :=
  if negb (vexp v) || has_char EQ n then None
  else match vval v with
       | None => None
       | Some x =>
           let r := n ++ EQ :: value_string x in
           if has_char 0%N r then None else Some r      (* CString::new fails on NUL *)
       end.

Definition env_c_strings (s : vset) : list str :=
  flat_map (fun p => match snd p with
                     | (v, _) :: _ => match env_entry (fst p) v with Some r => [r] | None => [] end
                     | [] => []
                     end) (vars s).

(* ---- histories ------------------------------------------------------------------------ *)

Fixpoint run (s : vset) (ops : list op) : option vset :=
  match ops with
  | [] => Some s
  | o :: ops => match step s o with
                | Some (s', _) => run s' ops
                | None => None
                end
  end.

(* the variable of name [n] that lives in context [i], if any *)
Definition entry (s : vset) (n : name) (i : nat) : option var :=
  match find (fun p : vic => Nat.eqb (snd p) i) (stack_of s n) with
  | Some (v, _) => Some v
  | None => None
  end.

(* ==== the caller rules: how simple commands use the variable set ================
   (yash-semantics/src/command/simple_command.rs perform_assignments,
    simple_command/{absent,builtin,function,external}.rs, assign.rs,
    yash-builtin/src/{typeset/set_variables,export,readonly,unset/semantics}.rs)

   A script of the small command language below is compiled into a flat list
   of instructions: operations on the variable set (each with what happens
   when it reports a read-only error) and observation points.

     - no command word, or a special built-in (`:`): the assignments are made
       with Scope::Global and not exported; a read-only error makes the
       (non-interactive) shell exit;
     - any other built-in, a function, an external utility: a volatile context
       is pushed, the assignments are made with Scope::Volatile and exported,
       and the context is popped when the command finishes;
     - a function additionally runs its body in a regular context that holds
       the arguments as positional parameters;
     - typeset (an elective = non-special built-in): get_or_create(name,
       Local | Global with -g), assign if a value is given (on a read-only
       error the attributes are skipped and the shell goes on), then
       make_read_only / export;
     - read (yash-builtin/src/read/assigning.rs, a mandatory = non-special
       built-in): get_or_create(name, Global) and assign; a read-only error
       only makes the built-in fail;
     - export, readonly (special): the same with Scope::Global; errors are fatal;
     - unset (special): unset(name, Scope::Global); errors are fatal;
     - set -- ... : replaces the positional parameters;
     - for NAME in WORDS (compound_command/for_loop.rs): before every round
       get_or_create(NAME, Global) and assign; a read-only error is fatal; no
       variable context is pushed;
     - return: the function's two contexts are popped by the guards on this
       path too; the rest of the function body is not run. *)

Inductive cmd :=
| CAssign (asgs : list (name * value))                 (* a=v b=w *)
| CProbe (temps : list (name * value))                 (* [a=v] vars        : a regular built-in *)
| CSpecial (temps : list (name * value))               (* [a=v] :           : a special built-in *)
| CCall (temps : list (name * value)) (body : list cmd) (args : list str)
                                                       (* [a=v] f args      : f() { body; } *)
| CTypeset (temps : list (name * value)) (global export readonly : bool)
           (n : name) (v : option value)               (* [a=v] typeset [-g] [-x] [-r] n[=v] *)
| CExport (n : name) (v : option value)                (* export n[=v] *)
| CReadonly (n : name) (v : option value)              (* readonly n[=v] *)
| CUnset (n : name)                                    (* unset n *)
| CSetParams (ps : list str)                           (* set -- ps *)
| CExec (temps : list (name * value))                  (* [a=v] /bin/prog   : an external utility *)
| CRead (temps : list (name * value)) (n : name) (line : str)
                                                       (* [a=v] read n <<E  : a regular built-in that
                                                          assigns n with Scope::Global; a read-only
                                                          error only makes it fail *)
| CFor (n : name) (vals : list str) (body : list cmd)  (* for n in vals; do body; done : n is assigned
                                                          with Scope::Global before every round *)
| CReturn.                                             (* return : leaves the innermost function; only
                                                          meaningful directly in a function body *)

(* the part of a function body that runs: up to the first `return` *)
Fixpoint cut_return (l : list cmd) : list cmd :=
  match l with
  | [] => []
  | CReturn :: _ => []
  | c :: l => c :: cut_return l
  end.

Inductive errmode :=
| EIgnore         (* no error possible / the command goes on *)
| EFatal          (* the shell exits *)
| ESkip.          (* the next instruction is skipped *)

Inductive instr :=
| IOp (o : op) (e : errmode)
| IObsVars        (* the probe built-in looks at the variables and positional parameters *)
| IObsEnv.        (* a program is executed: its environment *)

Definition temp_volatile (temps : list (name * value)) : list instr :=
  map (fun p => IOp (OGetOrNew (fst p) SVolatile [MAssign (snd p) (Some 0%N); MExport true]) EFatal)
      temps.

Definition temp_global (temps : list (name * value)) : list instr :=
  map (fun p => IOp (OGetOrNew (fst p) SGlobal [MAssign (snd p) (Some 0%N)]) EFatal) temps.

Definition opt_assign (v : option value) : list mutation :=
  match v with Some x => [MAssign x (Some 0%N)] | None => [] end.

Fixpoint compile (c : cmd) : list instr :=
  match c with
  | CAssign asgs => temp_global asgs
  | CSpecial temps => temp_global temps
  | CProbe temps =>
      IOp (OPush CVolatile) EIgnore :: temp_volatile temps ++ [IObsVars; IOp OPop EIgnore]
  | CExec temps =>
      IOp (OPush CVolatile) EIgnore :: temp_volatile temps ++ [IObsEnv; IOp OPop EIgnore]
  | CCall temps body args =>
      IOp (OPush CVolatile) EIgnore :: temp_volatile temps
      ++ IOp (OPush (CRegular args)) EIgnore
         :: (fix body_instrs (l : list cmd) : list instr :=        (* = flat_map compile (cut_return body) *)
               match l with
               | [] => []
               | CReturn :: _ => []
               | c :: l' => compile c ++ body_instrs l'
               end) body
      ++ [IOp OPop EIgnore; IOp OPop EIgnore]
  | CTypeset temps g x r n v =>
      let sc := if g then SGlobal else SLocal in
      IOp (OPush CVolatile) EIgnore :: temp_volatile temps
      ++ match v with
         | Some val => [IOp (OGetOrNew n sc [MAssign val (Some 0%N)]) ESkip]
         | None => []
         end
      ++ [IOp (OGetOrNew n sc ((if r then [MReadOnly 0%N] else []) ++ (if x then [MExport true] else [])))
              EIgnore;
          IOp OPop EIgnore]
  | CExport n v => [IOp (OGetOrNew n SGlobal (opt_assign v ++ [MExport true])) EFatal]
  | CReadonly n v => [IOp (OGetOrNew n SGlobal (opt_assign v ++ [MReadOnly 0%N])) EFatal]
  | CUnset n => [IOp (OUnset n SGlobal) EFatal]
  | CSetParams ps => [IOp (OSetParams ps) EIgnore]
  | CRead temps n line =>
      IOp (OPush CVolatile) EIgnore :: temp_volatile temps
      ++ [IOp (OGetOrNew n SGlobal [MAssign (Scalar line) (Some 0%N)]) EIgnore; IOp OPop EIgnore]
  | CFor n vals body =>
      flat_map (fun v => IOp (OGetOrNew n SGlobal [MAssign (Scalar v) (Some 0%N)]) EFatal
                         :: flat_map compile body) vals
  | CReturn => []
  end.

Definition compile_script (cs : list cmd) : list instr := flat_map compile cs.

Definition is_err (r : result) : bool :=
  match r with
  | RMuts l => existsb (fun m => match m with AErr _ => true | _ => false end) l
  | RUnsetErr _ => true
  | _ => false
  end.

(* what a probe sees: per name (value, exported, read-only), and "$@" *)
Inductive pobs :=
| PVars (vs : list (option (option value * bool * bool))) (params : list str)
| PEnv (env : list str).

Inductive ending := Finished | Exited | Panicked.

Section Runner.
  Variable St : Type.
  Variable stp : St -> op -> option (St * result).
  Variable obs_vars : St -> pobs.
  Variable obs_env : St -> pobs.

  Fixpoint irun (l : list instr) (st : St) : list pobs * ending * St :=
    match l with
    | [] => ([], Finished, st)
    | IObsVars :: l => let '(t, e, st') := irun l st in (obs_vars st :: t, e, st')
    | IObsEnv :: l => let '(t, e, st') := irun l st in (obs_env st :: t, e, st')
    | IOp o m :: l =>
        match stp st o with
        | None => ([], Panicked, st)
        | Some (st1, r) =>
            if is_err r then
              match m with
              | EIgnore => irun l st1
              | EFatal => ([], Exited, st1)
              | ESkip => match l with [] => ([], Finished, st1) | _ :: l' => irun l' st1 end
              end
            else irun l st1
        end
    end.
End Runner.

Definition var_view (v : var) : option value * bool * bool := (vval v, vexp v, is_ro v).

Definition is_prefix (p x : str) : bool := str_eqb p (firstn (length p) x).

Definition env_of_names (names : list name) (env : list str) : list str :=
  filter (fun x => existsb (fun n => is_prefix (n ++ [EQ]) x) names) env.

Definition m_obs_vars (names : list name) (s : vset) : pobs :=
  PVars (map (fun n => option_map var_view (get s n)) names)
        (match positional_params s with Some ps => ps | None => [] end).

Definition m_obs_env (names : list name) (s : vset) : pobs :=
  PEnv (env_of_names names (env_c_strings s)).

Definition run_script (names : list name) (cs : list cmd) : list pobs * ending * vset :=
  irun vset step (m_obs_vars names) (m_obs_env names) (compile_script cs) init.
