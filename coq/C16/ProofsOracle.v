(* C16 — oracle soundness: what the model shows always passes the oracle, so
   the check can only raise an alarm when the implementation differs from the
   model or from the specification. *)
From Yv Require Import Common.Base C16.Model C16.Spec C16.Run
  C16.ProofsBase C16.ProofsAbs C16.ProofsProps C16.ProofsScript.
From Coq Require Import Lia.

(* ---- reflexivity of the equality tests ------------------------------------------- *)

Lemma list_eqb_refl {A} (eqb : A -> A -> bool) (l : list A) :
  (forall x, eqb x x = true) -> list_eqb eqb l l = true.
Proof. intros H. induction l as [|x l IH]; cbn; [reflexivity|]. rewrite H, IH. reflexivity. Qed.

Lemma option_eqb_refl {A} (eqb : A -> A -> bool) (o : option A) :
  (forall x, eqb x x = true) -> option_eqb eqb o o = true.
Proof. intros H. destruct o; cbn; auto. Qed.

Lemma N_eqb_refl' (x : N) : N.eqb x x = true.
Proof. apply N.eqb_refl. Qed.

Lemma value_eqb_refl v : value_eqb v v = true.
Proof.
  destruct v; cbn; [apply str_eqb_refl|]. apply list_eqb_refl. apply str_eqb_refl.
Qed.

Lemma var_eqb_refl v : var_eqb v v = true.
Proof.
  unfold var_eqb.
  rewrite (option_eqb_refl value_eqb _ value_eqb_refl), !(option_eqb_refl N.eqb _ N_eqb_refl').
  destruct (vexp v), (vquirk v); reflexivity.
Qed.

Lemma mres_eqb_refl m : mres_eqb m m = true.
Proof.
  destruct m; cbn; [|apply N.eqb_refl|reflexivity].
  rewrite (option_eqb_refl value_eqb _ value_eqb_refl), (option_eqb_refl N.eqb _ N_eqb_refl'). reflexivity.
Qed.

Lemma result_eqb_refl r : result_eqb r r = true.
Proof.
  destruct r; cbn; [reflexivity| | |apply N.eqb_refl].
  - apply list_eqb_refl. apply mres_eqb_refl.
  - apply option_eqb_refl. apply var_eqb_refl.
Qed.

Lemma nv_eqb_refl p : nv_eqb p p = true.
Proof. unfold nv_eqb. rewrite str_eqb_refl, var_eqb_refl. reflexivity. Qed.

Lemma existsb_in {A} (eqb : A -> A -> bool) (x : A) (l : list A) :
  (forall y, eqb y y = true) -> In x l -> existsb (eqb x) l = true.
Proof. intros H Hin. apply existsb_exists. exists x. split; [exact Hin|apply H]. Qed.

Lemma nodupb_str (l : list str) : NoDup l -> nodupb str_eqb l = true.
Proof.
  induction 1 as [|x l Hn Hd IH]; cbn; [reflexivity|]. rewrite IH, andb_true_r.
  apply negb_true_iff. destruct (existsb (str_eqb x) l) eqn:E; [|reflexivity].
  apply existsb_exists in E. destruct E as (y & Hy & Hxy). apply str_eqb_eq in Hxy. subst y.
  contradiction.
Qed.

Lemma list_eqb_map {A B} (eqb : B -> B -> bool) (f g : A -> B) (l : list A) :
  (forall x, eqb x x = true) -> (forall x, In x l -> f x = g x) ->
  list_eqb eqb (map f l) (map g l) = true.
Proof.
  intros Hr H. induction l as [|x l IH]; cbn; [reflexivity|].
  rewrite (H x (or_introl eq_refl)), Hr. cbn. apply IH. intros y Hy. apply H. right; exact Hy.
Qed.

(* ---- stream 1 ------------------------------------------------------------------------ *)

Section OracleSound.
Variable names : list name.
Hypothesis names_nodup : NoDup names.

Definition covers (s : vset) : Prop := forall n, stack_of s n <> [] -> In n names.

Lemma exactly_iter s a sc l :
  Inv s -> Abs s a -> covers s -> iter s sc = Some l ->
  NoDup (map fst l) ->
  (forall n v, In (n, v) l <-> get_scoped s n sc = Some (Some v)) ->
  exactly names (fun n => s_get_scoped a n sc) l = true.
Proof.
  intros HI HA Hcov Hit Hnd Hin. unfold exactly. rewrite !andb_true_iff. split; [split|].
  - apply nodupb_str. exact Hnd.
  - apply forallb_forall. intros [n v] Hp. cbn [fst snd].
    pose proof (proj1 (Hin n v) Hp) as Hg. rewrite (get_scoped_sim s a n sc HI HA) in Hg.
    injection Hg as Hg. rewrite Hg. cbn. rewrite var_eqb_refl, andb_true_r.
    apply existsb_in; [apply str_eqb_refl|]. apply Hcov.
    pose proof (proj1 (Hin n v) Hp) as Hg'. unfold get_scoped in Hg'.
    destruct (index_of_context sc (ctxs s)); [|discriminate].
    destruct (stack_of s n); [discriminate|discriminate].
  - apply forallb_forall. intros n Hn.
    destruct (s_get_scoped a n sc) as [v|] eqn:E; [|reflexivity].
    apply existsb_in; [apply nv_eqb_refl|]. apply Hin.
    rewrite (get_scoped_sim s a n sc HI HA), E. reflexivity.
Qed.

Lemma same_strings_env s a :
  Inv s -> Abs s a -> covers s -> same_strings (env_c_strings s) (s_env names a) = true.
Proof.
  intros HI HA Hcov. unfold same_strings. rewrite !andb_true_iff. split; [split|].
  - apply nodupb_str. apply env_nodup_lemma. exact HI.
  - apply forallb_forall. intros x Hx. apply existsb_in; [apply str_eqb_refl|].
    apply (env_lemma s x HI) in Hx. destruct Hx as (n & v & Hg & He).
    apply s_env_in. exists n, v. split; [|split; [|exact He]].
    + apply Hcov. unfold get in Hg. destruct (stack_of s n); [discriminate|discriminate].
    + rewrite <- (get_spec_lookup s a n HA). exact Hg.
  - apply forallb_forall. intros x Hx. apply existsb_in; [apply str_eqb_refl|].
    apply s_env_in in Hx. destruct Hx as (n & v & _ & Hl & He).
    apply (env_lemma s x HI). exists n, v. split; [|exact He].
    rewrite (get_spec_lookup s a n HA). exact Hl.
Qed.

Theorem oracle_sound_lemma s a r :
  Inv s -> Abs s a -> covers s -> oracle names a r (observe names s r) = true.
Proof.
  intros HI HA Hcov. unfold oracle.
  assert (H : forallb (fun b => b) (oracle_clauses names a r (observe names s r)) = true).
  { unfold oracle_clauses, observe. cbn [o_res o_get o_scoped o_iter o_env o_params forallb].
    rewrite result_eqb_refl. cbn [andb].
    (* 2 *)
    assert (E2 : list_eqb (option_eqb var_eqb) (map (get s) names) (map (slookup a) names) = true).
    { apply list_eqb_map.
      - intros o. apply option_eqb_refl. apply var_eqb_refl.
      - intros n _. apply get_spec_lookup. exact HA. }
    rewrite E2. cbn [andb].
    (* 3 *)
    match goal with |- list_eqb ?e (map ?f names) (map ?g names) && _ = true =>
      assert (E3 : list_eqb e (map f names) (map g names) = true) end.
    { apply list_eqb_map.
      - intros [[x y] z]. rewrite !(option_eqb_refl var_eqb _ var_eqb_refl). reflexivity.
      - intros n _. rewrite !(get_scoped_sim s a n _ HI HA). reflexivity. }
    rewrite E3. cbn [andb].
    (* 4 *)
    destruct (iter_model_lemma s SGlobal HI) as (lg & Eg & Ndg & Hg).
    destruct (iter_model_lemma s SLocal HI) as (ll & El & Ndl & Hl).
    destruct (iter_model_lemma s SVolatile HI) as (lv & Ev & Ndv & Hv).
    rewrite Eg, El, Ev. cbn [unwrap].
    rewrite (exactly_iter s a SGlobal lg HI HA Hcov Eg Ndg Hg),
            (exactly_iter s a SLocal ll HI HA Hcov El Ndl Hl),
            (exactly_iter s a SVolatile lv HI HA Hcov Ev Ndv Hv).
    cbn [andb].
    (* 5 *)
    rewrite (same_strings_env s a HI HA Hcov). cbn [andb].
    (* 6 *)
    rewrite (params_sim s a HI HA). destruct (s_params a) as [ps|] eqn:Ep; cbn [unwrap option_eqb].
    - rewrite (list_eqb_refl str_eqb ps str_eqb_refl). reflexivity.
    - exfalso. pose proof (abs_base_reg _ _ HI HA) as Hb.
      destruct (base_reg_first_reg _ Hb) as [i Hf].
      pose proof (s_params_sim a i Hf) as Hs. rewrite Ep in Hs.
      destruct HA as [Hc _]. pose proof HI as [_ _ _].
      rewrite <- topreg_kinds in Hf. destruct (topreg_spec _ _ Hf) as (_ & (ps & Hn) & _).
      rewrite Hn in Hs. discriminate. }
  revert H. generalize (oracle_clauses names a r (observe names s r)). intros l.
  generalize 0%N. induction l as [|b l IH]; intros k; cbn; [reflexivity|].
  destruct b; cbn; [apply IH|discriminate].
Qed.

End OracleSound.

(* ---- stream 2 -------------------------------------------------------------------------- *)

Lemma same_strings_set_equiv (e e' : list str) :
  (forall z, In z e <-> In z e') -> NoDup e -> NoDup e' -> same_strings_set e e' = true.
Proof.
  intros H Hd Hd'. unfold same_strings_set. rewrite !andb_true_iff. split; [split|].
  - apply forallb_forall. intros x Hx. apply existsb_in; [apply str_eqb_refl|]. apply H; exact Hx.
  - apply forallb_forall. intros x Hx. apply existsb_in; [apply str_eqb_refl|]. apply H; exact Hx.
  - apply Nat.eqb_eq. apply Nat.le_antisymm; apply NoDup_incl_length; try assumption;
      intros x Hx; apply H; exact Hx.
Qed.

Lemma view_eqb_refl x : view_eqb x x = true.
Proof.
  destruct x as [[v e] r]. cbn. rewrite (option_eqb_refl value_eqb _ value_eqb_refl).
  destruct e, r; reflexivity.
Qed.

Lemma pobs_eqb_of_equiv x y : pobs_equiv x y -> pobs_eqb x y = true.
Proof.
  destruct x as [vs ps|e], y as [vs' ps'|e']; cbn; try contradiction.
  - intros [-> ->]. rewrite (list_eqb_refl _ vs' (fun o => option_eqb_refl view_eqb o view_eqb_refl)).
    rewrite (list_eqb_refl str_eqb ps' str_eqb_refl). reflexivity.
  - intros (H & Hd & Hd'). apply same_strings_set_equiv; assumption.
Qed.

Lemma trace_eqb_of_equiv tm ts : Forall2 pobs_equiv tm ts -> list_eqb pobs_eqb tm ts = true.
Proof.
  induction 1 as [|x y tm ts Hxy _ IH]; cbn; [reflexivity|].
  rewrite (pobs_eqb_of_equiv _ _ Hxy), IH. reflexivity.
Qed.

Lemma pobs_eqb_sym_trace tm ts : Forall2 pobs_equiv tm ts -> list_eqb pobs_eqb ts tm = true.
Proof.
  induction 1 as [|x y tm ts Hxy _ IH]; cbn; [reflexivity|]. rewrite IH, andb_true_r.
  apply pobs_eqb_of_equiv.
  destruct x as [vs ps|e], y as [vs' ps'|e']; cbn in *; try contradiction.
  - destruct Hxy; split; congruence.
  - destruct Hxy as (H & Hd & Hd'). split; [intros z; symmetry; apply H|auto].
Qed.

(* if the shell shows what the model shows, the verdict is 0 *)
Theorem script_oracle_sound_lemma names cs :
  (forall n, In n names -> ~ In EQ n) -> NoDup names ->
  match run_script names cs with
  | (tm, em, _) => em <> Panicked -> run_script_case names cs tm false = 0%N
  end.
Proof.
  intros Hne Hnd. pose proof (script_sim names Hne Hnd cs) as H.
  unfold run_script_case.
  destruct (run_script names cs) as [[tm em] s'] eqn:Em.
  destruct (srun_script names cs) as [[ts es] a'] eqn:Es.
  destruct H as [<- H]. intros Hp.
  assert (E1 : list_eqb pobs_eqb tm ts = true) by (apply trace_eqb_of_equiv; exact H).
  assert (E2 : list_eqb pobs_eqb tm tm = true).
  { clear - H. induction H as [|x y tm ts Hxy _ IH]; cbn; [reflexivity|]. rewrite IH, andb_true_r.
    apply pobs_eqb_of_equiv.
    destruct x as [vs ps|e], y as [vs' ps'|e']; cbn in *; try contradiction.
    - split; reflexivity.
    - destruct Hxy as (_ & Hd & _). split; [intros z; reflexivity|auto]. }
  destruct em; try congruence; rewrite E1; cbn; rewrite E2; reflexivity.
Qed.
