(* C16 — all lemmas, and the concrete states used as non-vacuity examples. *)
From Yv Require Export Common.Base C16.Model C16.Spec C16.ProofsBase C16.ProofsAbs C16.ProofsProps
  C16.ProofsFrame C16.ProofsScope C16.ProofsScript C16.Run C16.ProofsOracle C16.ProofsPanic C16.ProofsEnv.

Definition A : name := [97%N].

(* a read-only global, a function context with a local of the same name, and a
   temporary (volatile) copy on top *)
Definition ex_ops : list op :=
  [ OGetOrNew A SGlobal [MAssign (Scalar [49%N]) (Some 1%N); MReadOnly 2%N];
    OPush CVolatile;
    OGetOrNew A SVolatile [MExport true];
    OPush (CRegular [[112%N]]);
    OGetOrNew A SLocal [MAssign (Scalar [50%N]) (Some 3%N); MExport true];
    OPush CVolatile;
    OGetOrNew A SVolatile [MAssign (Scalar [51%N]) None] ].

Definition ex_state : vset :=
  match run init ex_ops with Some s => s | None => init end.

Lemma ex_state_run : run init ex_ops = Some ex_state.
Proof. vm_compute. reflexivity. Qed.

Lemma ex_state_inv : Inv ex_state.
Proof. exact (inv_run ex_ops init ex_state inv_init ex_state_run). Qed.

Lemma ex_state_facts :
  length (ctxs ex_state) = 4 /\
  (exists w, entry ex_state A 0 = Some w /\ is_ro w = true) /\
  (exists w, entry ex_state A 1 = Some w /\ is_ro w = true /\ vexp w = true) /\
  (exists w, entry ex_state A 3 = Some w /\ vval w = Some (Scalar [51%N])) /\
  env_c_strings ex_state = [[97; 61; 51]%N].
Proof. vm_compute. repeat split; eexists; repeat split. Qed.

Lemma ex_state_abs : exists a, srun sinit ex_ops = Some a /\ Abs ex_state a.
Proof.
  pose proof (sim_run_init ex_ops) as H. rewrite ex_state_run in H.
  destruct (srun sinit ex_ops) as [a|]; [|contradiction].
  exists a. split; [reflexivity|tauto].
Qed.

Lemma ex_pop : exists s' r, step ex_state OPop = Some (s', r).
Proof. vm_compute. eauto. Qed.

(* ---- scripts ---------------------------------------------------------------------------- *)

Definition B : name := [98%N].
Definition FIVE : value := Scalar [53%N].

(* f() { typeset b=2; a=3; set -- z; }   a=1 b=1; set -- p; a=5 f q  *)
Definition ex_body : list cmd :=
  [ CTypeset [] false false false B (Some (Scalar [50%N]));
    CSetParams [[122%N]];
    CProbe [] ].

Definition ex_pre : list cmd :=
  [ CAssign [(A, Scalar [49%N]); (B, Scalar [49%N])]; CSetParams [[112%N]] ].

Definition ex_pre_state : vset :=
  match run_script [A; B] ex_pre with (_, _, s) => s end.

Lemma ex_pre_inv : Inv ex_pre_state.
Proof.
  assert (H : run init [OGetOrNew A SGlobal [MAssign (Scalar [49%N]) (Some 0%N)];
                        OGetOrNew B SGlobal [MAssign (Scalar [49%N]) (Some 0%N)];
                        OSetParams [[112%N]]] = Some ex_pre_state) by (vm_compute; reflexivity).
  exact (inv_run _ _ _ ProofsBase.inv_init H).
Qed.

Lemma ex_call_runs :
  forallb (cmd_safe B) ex_body = true /\
  exists t s', irun vset step (m_obs_vars [A; B]) (m_obs_env [A; B])
                 (compile (CCall [(A, FIVE)] ex_body [[113%N]])) ex_pre_state = (t, Finished, s').
Proof. split; [reflexivity|]. vm_compute. eauto. Qed.

Lemma ex_regular_runs :
  exists t s', irun vset step (m_obs_vars [A; B]) (m_obs_env [A; B])
                 (compile (CProbe [(A, FIVE)])) ex_pre_state = (t, Finished, s').
Proof. vm_compute. eauto. Qed.

(* `a=5 typeset a` at top level: the temporary assignment outlives the
   (regular) built-in, and stays exported *)
Lemma typeset_temp_outlives :
  exists temps n t s',
    irun vset step (m_obs_vars [A]) (m_obs_env [A]) (compile (CTypeset temps false false false n None)) init
      = (t, Finished, s') /\
    In n (map fst temps) /\ get init n = None /\
    exists w, get s' n = Some w /\ vval w = Some FIVE /\ vexp w = true.
Proof.
  exists [(A, FIVE)], A. vm_compute. eexists _, _. split; [reflexivity|].
  split; [left; reflexivity|]. split; [reflexivity|]. eexists. repeat split.
Qed.

Lemma ex_special_runs :
  exists t s', irun vset step (m_obs_vars [A; B]) (m_obs_env [A; B])
                 (compile (CSpecial [(A, FIVE)])) ex_pre_state = (t, Finished, s').
Proof. vm_compute. eauto. Qed.

Lemma ex_global_persist_runs :
  exists t s', irun vset step (m_obs_vars [A; B]) (m_obs_env [A; B])
                 (compile (CCall [(A, Scalar [55%N])] [CAssign [(A, FIVE)]] [])) ex_pre_state
               = (t, Finished, s').
Proof. vm_compute. eauto. Qed.

Lemma ex_scope_runs :
  (exists t s', irun vset step (m_obs_vars [A; B]) (m_obs_env [A; B])
                 (compile (CCall [(A, Scalar [55%N])] [CReadonly A (Some FIVE)] [])) ex_pre_state
               = (t, Finished, s')) /\
  (exists t s', irun vset step (m_obs_vars [A; B]) (m_obs_env [A; B])
                 (compile (CCall [(A, Scalar [55%N])] [CExport A None] [])) ex_pre_state
               = (t, Finished, s')) /\
  (exists t s', irun vset step (m_obs_vars [A; B]) (m_obs_env [A; B])
                 (compile (CCall [(A, Scalar [55%N])] [CTypeset [] false true true A (Some FIVE)] [])) ex_pre_state
               = (t, Finished, s')).
Proof. repeat split; vm_compute; eauto. Qed.

Lemma ex_scope_runs2 :
  (exists t s', irun vset step (m_obs_vars [A; B]) (m_obs_env [A; B])
                 (compile (CCall [(A, Scalar [55%N])] [CTypeset [] true true true A (Some FIVE)] [])) ex_pre_state
               = (t, Finished, s')) /\
  (exists t s', irun vset step (m_obs_vars [A; B]) (m_obs_env [A; B])
                 (compile (CCall [(A, Scalar [55%N])] [CUnset A] [])) ex_pre_state
               = (t, Finished, s')) /\
  (exists t s', irun vset step (m_obs_vars [A; B]) (m_obs_env [A; B])
                 (compile (CCall [(A, Scalar [55%N])] [CFor A [[49%N]] []] [])) ex_pre_state
               = (t, Finished, s')).
Proof. repeat split; vm_compute; eauto. Qed.

Lemma ex_state_get : exists v, get ex_state A = Some v /\ vval v = Some (Scalar [51%N]).
Proof. vm_compute. eexists; split; reflexivity. Qed.

Lemma ex_state_covers : forall n, stack_of ex_state n <> [] -> In n [A].
Proof.
  intros n H. left.
  assert (Hv : map fst (vars ex_state) = [A]) by (vm_compute; reflexivity).
  unfold stack_of in H. destruct (assoc n (vars ex_state)) as [st|] eqn:E; [|contradiction H; reflexivity].
  apply assoc_in in E. apply (in_map fst) in E. cbn [fst] in E. rewrite Hv in E.
  destruct E as [<-|[]]. reflexivity.
Qed.

Lemma ex_names_ok : (forall n, In n [A; B] -> ~ In EQ n) /\ NoDup [A; B].
Proof.
  split.
  - intros n [<-|[<-|[]]] [H|[]]; discriminate.
  - constructor; [intros [H|[]]; discriminate|]. constructor; [intros []|constructor].
Qed.

Definition ex_script : list cmd :=
  ex_pre ++ [CCall [(A, FIVE)] ex_body [[113%N]]; CExec [(B, FIVE)]; CProbe []].

Lemma ex_script_runs :
  exists tm s', run_script [A; B] ex_script = (tm, Finished, s') /\ length tm = 3.
Proof. vm_compute. eauto. Qed.

(* `a=5 read a` with the input line `7`: a=7 stays, exported *)
Lemma read_temp_outlives :
  exists temps n line t s',
    irun vset step (m_obs_vars [[97%N]]) (m_obs_env [[97%N]]) (compile (CRead temps n line)) init
      = (t, Finished, s') /\
    In n (map fst temps) /\ get init n = None /\
    exists w, get s' n = Some w /\ vval w = Some (Scalar line) /\ vexp w = true.
Proof.
  exists [(A, FIVE)], A, [55%N]. vm_compute. eexists _, _. split; [reflexivity|].
  split; [left; reflexivity|]. split; [reflexivity|]. eexists. repeat split.
Qed.

(* `readonly a` without a value, hidden by nothing *)
Definition ex_valueless : vset :=
  match run init [OGetOrNew A SGlobal [MReadOnly 9%N]] with Some s => s | None => init end.

Lemma ex_valueless_facts :
  Inv ex_valueless /\
  exists w, get ex_valueless A = Some w /\ vval w = None /\ vro w = Some 9%N.
Proof.
  split.
  - apply (inv_run [OGetOrNew A SGlobal [MReadOnly 9%N]] init); [exact ProofsBase.inv_init|].
    vm_compute. reflexivity.
  - vm_compute. eexists; repeat split.
Qed.

(* an exported array *)
Definition ex_array : vset :=
  match run init [OGetOrNew A SGlobal [MAssign (Array [[49%N]; []; [50%N]]) None; MExport true]] with
  | Some s => s | None => init end.

Lemma ex_array_facts :
  Inv ex_array /\ env_c_strings ex_array = [[97; 61; 49; 58; 58; 50]%N].
Proof.
  split; [|vm_compute; reflexivity].
  apply (inv_run [OGetOrNew A SGlobal [MAssign (Array [[49%N]; []; [50%N]]) None; MExport true]] init);
    [exact ProofsBase.inv_init|vm_compute; reflexivity].
Qed.

Lemma ex_exec_runs :
  exists t s', irun vset step (m_obs_vars [A; B]) (m_obs_env [A; B])
                 (compile (CExec [(A, FIVE); (A, Scalar [54%N])]) ++ []) ex_pre_state = (t, Finished, s').
Proof. vm_compute. eauto. Qed.

(* what `VariableSet::init` does for LINENO: a variable with the quirk and no value *)
Definition LINENO : name := [76; 73; 78; 69; 78; 79]%N.
Definition ex_lineno : vset :=
  match run init [OGetOrNew LINENO SGlobal [MSetQuirk true]; OGetOrNew LINENO SGlobal [MExport true]] with
  | Some s => s | None => init end.

Lemma ex_lineno_facts :
  Inv ex_lineno /\
  (exists w, get ex_lineno LINENO = Some w /\ vval w = None /\ vquirk w = true /\ vexp w = true) /\
  env_c_strings ex_lineno = [].
Proof.
  split; [|split; [vm_compute; eexists; repeat split|vm_compute; reflexivity]].
  apply (inv_run [OGetOrNew LINENO SGlobal [MSetQuirk true]; OGetOrNew LINENO SGlobal [MExport true]] init);
    [exact ProofsBase.inv_init|vm_compute; reflexivity].
Qed.
