(* C10 — property theorems only (each closed by [exact] of a lemma of
   Proofs.v / the C02 development; statements pinned by the driver). *)
From Yv Require Import Common.Base C02.Model C02.Spec C02.ProofsMono C02.ProofsSim C02.ProofsRev C02.Proofs
  C10.Model C10.Spec C10.Proofs C10.ProofsX.

(* Whether errexit applies is decided in the implementation by a dynamic test
   on the runtime stack (option on and no Condition frame anywhere); the
   specification decides it by the lexical flag [ex] that the constructs POSIX
   lists switch on (condition of if/elif/while/until, `!`, every pipeline of an
   and-or list but the last) and that is inherited through groups, function
   calls, subshells.  They agree: the test ... *)
Theorem errexit_test_eq_flag : forall stk d infun ex s,
  ctx_ok stk d infun ex -> errexit_is_applicable stk s = errexit s && negb ex.
Proof. exact errexit_test_lemma. Qed.

(* ... and every run: a command run by the model under any stack that the
   lexical context describes is a run of the specification under that lexical
   context, whatever the nesting of calls, groups, loops and subshells. *)
Theorem errexit_dynamic_eq_lexical : forall n stk c s r s' d infun ex,
  exec_cmd n stk c s = Some (r, s') -> ctx_ok stk d infun ex ->
  wf_cmd d infun c = true -> state_ok s ->
  forall sv, exists m, sem_cmd m d ex sv c s = Some (abs sv r s').
Proof. exact errexit_sim_lemma. Qed.

(* Whole scripts: the model's probe trace, final status and number of EXIT
   trap runs are those of the specification (C02's exec_sound covers the
   errexit, shell-error and trap constructs), and conversely. *)
Theorem abort_iff_documented : forall p o, wf_prog p = true -> (model_result p o <-> spec_result p o).
Proof. exact model_eq_spec_lemma. Qed.

(* errexit makes the shell exit only after a failing command, with -e on and
   outside every exempt context, and the exit carries no status of its own:
   the exit status is the status of the failing command. *)
Theorem errexit_abort_conditions : forall stk s dv,
  apply_errexit stk s = Brk dv ->
  dv = DExit None /\ status s <> 0%N /\ errexit s = true /\ has_cond stk = false.
Proof. exact errexit_abort_lemma. Qed.

(* The shell-error table of docs/src/termination.md (non-interactive shell):
   what the model's handlers do at each kind of error site is what the table
   says, for every state (errexit on or off) and every stack. *)
Theorem shell_error_table : forall site stk s ex,
  ex = has_cond stk ->
  let '(r, s1) := model_error_outcome site stk s in
  abs None r s1 = documented_outcome site ex s.
Proof. exact shell_error_table_lemma. Qed.

(* ... and the specification uses that very table. *)
Theorem spec_follows_termination_md : forall site ex s,
  shell_error (fst (kind_of site)) (snd (kind_of site)) ex None s = documented_outcome site ex s.
Proof. exact spec_uses_documented_table. Qed.

(* Commands after the abort point never run: whatever follows a list / a line
   that ended in a divert has no influence on the result. *)
Theorem nothing_runs_after_abort_in_list : forall n stk l1 l2 s dv s1,
  exec_list n stk l1 s = Some (Brk dv, s1) -> exec_list n stk (capp l1 l2) s = Some (Brk dv, s1).
Proof. exact list_abort_lemma. Qed.

Theorem nothing_runs_after_abort : forall n p1 p2 dv s1,
  run_lines n p1 false init_state = Some (Brk dv, s1) -> model_run n (p1 ++ p2) = model_run n p1.
Proof. exact after_abort_lemma. Qed.

(* The exit status of a run: the status carried by the divert that ended it
   (exit N, return N, shell error 2 ...), else `$?` of the last command. *)
Theorem abort_status : forall n p r s1 o,
  run_lines n p false init_state = Some (r, s1) -> model_run n p = Some o ->
  exit_trap s1 = None ->
  snd o = match r with
          | Cont => status s1
          | Brk dv => match divert_exit_status dv with Some st => st | None => status s1 end
          end.
Proof. exact abort_status_lemma. Qed.

(* The EXIT trap runs exactly once: a script that first sets
   `trap 'probe K ST' EXIT` and then runs any code that does not mention the
   key K, sets no other trap and does not redefine `probe` ends -- however it
   ends: end of input, exit, errexit, shell error, in the main shell or after
   any number of subshells -- with exactly one record of K in its trace. *)
Theorem exit_trap_exactly_once : forall k st p n o,
  forallb (plain_line k) p = true -> model_run n (trap_line k st :: p) = Some o ->
  count_key k (fst o) = 1.
Proof. exact exit_trap_once_lemma. Qed.

(* ---- extension: further categories of shell errors at composed positions ---- *)

(* The table of consequences (Spec.v [xerr_class]: which error ends the shell
   execution environment, with which status, and which only fails the command;
   [xwalk]: what that means at a position: exempt contexts, environments of
   their own, `set -e` on or off): for every category, with and without the
   `command` prefix, errexit on and off, with and without an EXIT trap, at
   top level, at every position and at every nesting of two or three positions, the
   model's run of the script is the one the table describes: `probe 2` after
   the victim runs exactly if the victim does not end its environment, `probe
   3` at the end exactly if the script is not aborted, the exit status is that
   of the failing command / of the error, the EXIT trap runs exactly once and
   sees that status.  (Full statement: for every list of positions.  Proved by
   evaluation, hence the bound on the nesting; deeper nestings are compared
   with the real shell on every run, and the lowered scripts are programs of
   the shared model, for which errexit_dynamic_eq_lexical and
   abort_iff_documented hold at every depth.) *)
Theorem xerr_table_positions_depth3_partial : forall x, (length (x_pos x) <= 3)%nat ->
  exists o, model_run 200 (xscript x) = Some o /\ xoracle x o = true /\ wf_prog (xscript x) = true.
Proof. exact xtable_lemma. Qed.

(* ... and so is the specification's. *)
Theorem xerr_table_spec_depth3_partial : forall x, (length (x_pos x) <= 3)%nat ->
  exists o, spec_result (xscript x) o /\ xoracle x o = true.
Proof. exact xtable_spec_lemma. Qed.

(* The handlers themselves, for every runtime stack and every state (in which
   `false` is not a function, v2 is unset and v9 is not read-only): the command that stands for the
   category either ends the shell execution environment (an Interrupt or Exit
   divert; the exit status is the error's) or completes with the table's
   status and is subject to errexit like any failing command; it records
   nothing in the trace. *)
Theorem xerr_handler_table : forall e viac stk s n, xstate_ok s ->
  exists r s1, exec_cmd (S (S n)) stk (xlower e viac) s = Some (r, s1) /\
    trace s1 = trace s /\
    match xerr_class e viac with
    | XFatal st => ends_environment r = true /\ status (apply_result r s1) = st
    | XSoft st => status s1 = st /\ r = apply_errexit stk s1
    end.
Proof. exact xhandler_lemma. Qed.

Example xerr_handler_table_not_vacuous : xstate_ok init_state.
Proof. repeat split; reflexivity. Qed.

(* The EXIT trap sees the exit status and leaves it: a script whose first line
   sets `trap 'probe K ST' EXIT` ends with the status it had when its last
   command / the divert ended it (for errexit: the status of the failing
   command), whatever the trap action's own status ST is, and the trap action
   ran with `$?` = that status. *)
Theorem exit_trap_sees_exit_status : forall k st p n r s1 o,
  forallb (plain_line k) p = true ->
  run_lines n (trap_line k st :: p) false init_state = Some (r, s1) ->
  model_run n (trap_line k st :: p) = Some o ->
  snd o = status (apply_result r s1) /\ In (k, snd o) (fst o).
Proof. exact exit_trap_status_lemma. Qed.

(* non-vacuity: `set -e; ( ! { shift 5; probe 2; } )`: the subshell ends with 1, errexit ends the script *)
Example xerr_table_not_vacuous :
  model_run 200 (xscript (mkX XShiftTooMany false true true [PSubshell; PNeg]))
  = Some ([(1, 0); (9999, 1)]%N, 1%N).
Proof. reflexivity. Qed.

(* ---- non-vacuity ---- *)

(* trap 'probe 9 7' EXIT; set -e; (probe 1 3); probe 2  -- the subshell fails,
   errexit ends the shell with status 3, the trap runs once *)
Definition ex_abort : prog :=
  [ LCmd (LCons (AndOr (Pipe false (CCons (CCall plain NSet [1%N]) CNil)) RNil) LNil);
    LCmd (LCons (AndOr (Pipe false (CCons
       (CSubshell (LCons (AndOr (Pipe false (CCons (CCall plain NProbe [1%N; 3%N]) CNil)) RNil) LNil))
       CNil)) RNil) LNil);
    LCmd (LCons (AndOr (Pipe false (CCons (CCall plain NProbe [2%N]) CNil)) RNil) LNil) ].

Example exit_trap_exactly_once_not_vacuous :
  forallb (plain_line 9) ex_abort = true /\
  model_run 40 (trap_line 9 7 :: ex_abort) = Some ([(1, 0); (9, 3)]%N, 3%N) /\
  wf_prog (trap_line 9 7 :: ex_abort) = true.
Proof. repeat split; reflexivity. Qed.

Example nothing_runs_after_abort_not_vacuous :
  exists dv s1, run_lines 40 (firstn 2 ex_abort) false init_state = Some (Brk dv, s1).
Proof. eexists; eexists; reflexivity. Qed.

Example errexit_abort_not_vacuous :
  apply_errexit [FLoop; FSubshell] (set_errexit true (set_status 3 init_state)) = Brk (DExit None).
Proof. reflexivity. Qed.

Example exit_trap_sees_exit_status_not_vacuous :
  exists r s1, run_lines 40 (trap_line 9 7 :: ex_abort) false init_state = Some (r, s1)
               /\ status (apply_result r s1) = 3%N.
Proof. eexists; eexists; split; reflexivity. Qed.

Print Assumptions errexit_test_eq_flag.
Print Assumptions errexit_dynamic_eq_lexical.
Print Assumptions abort_iff_documented.
Print Assumptions errexit_abort_conditions.
Print Assumptions shell_error_table.
Print Assumptions spec_follows_termination_md.
Print Assumptions nothing_runs_after_abort_in_list.
Print Assumptions nothing_runs_after_abort.
Print Assumptions abort_status.
Print Assumptions exit_trap_exactly_once.
Print Assumptions xerr_table_positions_depth3_partial.
Print Assumptions xerr_table_spec_depth3_partial.
Print Assumptions exit_trap_sees_exit_status.
Print Assumptions xerr_handler_table.
