(* C10 — SPEC.  The semantics is the one of C02 (coq/C02/Spec.v), whose
   errexit flag [ex] is set exactly by the constructs POSIX lists (`set -e`:
   the compound list after if/elif/while/until, a pipeline beginning with `!`,
   every pipeline of an and-or list but the last) and inherited by everything
   executed inside (groups, functions called, subshells), and whose shell
   errors go through [shell_error].  Here, independently of both: the table of
   docs/src/termination.md "Shell errors" (non-interactive shell) and
   docs/src/language/commands/exit_status.md, as a finite function. *)
From Yv Require Export Common.Base C02.Model C02.Spec C10.Model.

Inductive documented :=
| DocExit (st : N)          (* the shell exits with this status *)
| DocExitWith               (* the shell exits with the status the built-in reported *)
| DocErrexit (st : N).      (* `$?` = st; the shell exits iff errexit applies *)

(* docs/src/termination.md, section "Shell errors", read for a non-interactive shell *)
Definition termination_md (site : error_site) : documented :=
  match site with
  | SiteSyntax => DocExit 2                 (* "Command syntax errors: the shell exits if non-interactive" *)
  | SiteSpecialBuiltin _ => DocExitWith     (* "Errors in special built-in utilities: exits if non-interactive" *)
  | SiteSpecialRedirection => DocExit 2     (* "This includes redirection errors for special built-ins" *)
  | SiteAssignment => DocExit 2             (* "Variable assignment errors and expansion errors: exits" *)
  | SiteExpansion => DocExit 2
  | SiteOtherRedirection => DocErrexit 2    (* "exits if errexit is set. Otherwise, continues" *)
  | SiteNotFound => DocErrexit 127          (* "many shells, including yash-rs, do not [exit]" *)
  end.

(* the documented behaviour as a completion and a state *)
Definition documented_outcome (site : error_site) (ex : bool) (s : state) : completion * state :=
  match termination_md site with
  | DocExit st => (Exiting, set_status st s)
  | DocExitWith =>
      match site with
      | SiteSpecialBuiltin st => (Exiting, set_status st s)
      | _ => (Exiting, s)
      end
  | DocErrexit st => done ex None (set_status st s)
  end.

Definition all_sites : list error_site :=
  [SiteSyntax; SiteSpecialBuiltin 1; SiteSpecialBuiltin 2; SiteSpecialRedirection;
   SiteAssignment; SiteExpansion; SiteOtherRedirection; SiteNotFound].

(* ---- counting probe keys (the EXIT trap of the harness probes a fresh key) ---- *)
Definition count_key (k : N) (t : list (N * N)) : nat :=
  length (filter (fun x => N.eqb (fst x) k) t).

(* Code that neither sets an EXIT trap, nor probes the key [k], nor defines a
   function named `probe` (used to state
   "the EXIT trap runs exactly once": the trap action of the script probes a
   key that occurs nowhere else). *)
Fixpoint plain_cmd (k : N) (c : cmd) {struct c} : bool :=
  match c with
  | CAssign _ _ | CReadonly _ => true
  | CCall _ nm args =>
      match nm with
      | NProbe => negb (N.eqb (hd 0%N args) k)
      | _ => true
      end
  | CBrace body | CSubshell body | CAssignSub _ body | CSubstArg body => plain_list k body
  | CIf cond body elifs _ els =>
      plain_list k cond && plain_list k body && plain_elifs k elifs && plain_list k els
  | CWhile _ cond body => plain_list k cond && plain_list k body
  | CFor _ _ body => plain_list k body
  | CCase _ items => plain_items k items
  | CAsync a => plain_andor k a
  | CPrefixCall _ _ nm args =>
      match nm with
      | NProbe => negb (N.eqb (hd 0%N args) k)
      | _ => true
      end
  | CFunDef nm body => negb (name_eqb nm NProbe) && plain_cmd k body
  | CTrapExit _ => false
  | CRedirFail c => plain_cmd k c
  end
with plain_list (k : N) (l : clist) {struct l} : bool :=
  match l with
  | LNil => true
  | LCons a l' => plain_andor k a && plain_list k l'
  end
with plain_andor (k : N) (a : andor) {struct a} : bool :=
  match a with AndOr first rest => plain_pipeline k first && plain_rest k rest end
with plain_rest (k : N) (r : aorest) {struct r} : bool :=
  match r with
  | RNil => true
  | RCons _ p r' => plain_pipeline k p && plain_rest k r'
  end
with plain_pipeline (k : N) (p : pipeline) {struct p} : bool :=
  match p with Pipe _ cs => plain_cmds k cs end
with plain_cmds (k : N) (cs : cmds) {struct cs} : bool :=
  match cs with
  | CNil => true
  | CCons c cs' => plain_cmd k c && plain_cmds k cs'
  end
with plain_elifs (k : N) (e : eliflist) {struct e} : bool :=
  match e with
  | ENil => true
  | ECons cond body e' => plain_list k cond && plain_list k body && plain_elifs k e'
  end
with plain_items (k : N) (is : itemlist) {struct is} : bool :=
  match is with
  | INil => true
  | ICons _ body _ is' => plain_list k body && plain_items k is'
  end.

Definition plain_line (k : N) (l : line) : bool :=
  match l with LCmd c => plain_list k c | LSyntaxError => true end.

(* the line   trap 'probe K ST' EXIT   *)
Definition probe_action (k st : N) : clist :=
  LCons (AndOr (Pipe false (CCons (CCall plain NProbe [k; st]) CNil)) RNil) LNil.
Definition trap_clist (k st : N) : clist :=
  LCons (AndOr (Pipe false (CCons (CTrapExit (probe_action k st)) CNil)) RNil) LNil.
Definition trap_line (k st : N) : line := LCmd (trap_clist k st).

(* ------------------------------------------------------------------ *)
(* Extension: the consequence of each further category of shell error  *)
(* at each position, written as a table + a walk over the positions    *)
(* (independent of the interpreter)                                    *)
(* ------------------------------------------------------------------ *)

(* XCU 2.8.1 "Consequences of Shell Errors" (non-interactive shell), as
   yash-rs implements it (docs/src/termination.md):
   [XFatal st]: the current shell execution environment exits with status st;
   [XSoft st]:  the command completes with status st and the script goes on
                (unless errexit applies to it). *)
Inductive xclass := XFatal (st : N) | XSoft (st : N).

Definition xerr_class (e : xerr) (viac : bool) : xclass :=
  match e with
  (* errors of special built-ins: "shall exit"; through `command`: "shall not exit" *)
  | XShiftTooMany | XUnsetReadonly | XReadonlyReassign | XExportReadonly
  | XExportSubstReadonly | XDotNotFound | XPrefixShiftTooMany => if viac then XSoft 1 else XFatal 1
  | XShiftOperand | XSetBadOption | XTimesOperand | XReturnOperand | XBreakOperand =>
      if viac then XSoft 2 else XFatal 2
  (* exec: "if command is not found, a non-interactive shell exits with 127";
     yash-rs does so through `command` as well *)
  | XExecNotFound | XExecNotFoundPath => XFatal 127
  (* shell language syntax error: "shall exit", whatever runs the parser *)
  | XEvalSyntax | XDotSyntax => XFatal 2
  (* the error of the special built-in inside eval's operand *)
  | XEvalSpecial | XDotSpecial => XFatal 1
  (* trap: "invalid signal names shall not be considered an error and shall
     not cause the shell to abort"; non-zero status *)
  | XTrapBadSignal => XSoft 1
  (* inside eval / a dot script the innermost built-in decides: a special built-in run
     through `command` fails softly *)
  | XEvalCommandSoft | XDotCommandSoft => XSoft 1
  (* the status of a command substitution in an operand of export is lost *)
  | XExportSubstFails => XSoft 0
  end.

(* positions in which POSIX `set -e` is ignored, for everything inside *)
Definition pos_exempt (p : position) : bool :=
  match p with
  | PIfCond | PAndLeft | POrLeft | PNeg | PFunInCond | PWhileCond | PUntilCond => true
  | _ => false
  end.

(* positions that are a shell execution environment of their own: [Some b],
   b = the status with which that environment ends is the position's status *)
Definition pos_isolating (p : position) : option bool :=
  match p with
  | PSubshell | PSubst | PPipeLast => Some true
  | PSubstIgn | PPipeFirst => Some false
  | _ => None
  end.

(* the status of the position when its inside went on and ended with [st] *)
Definition pos_status (p : position) (st : N) : N :=
  match p with
  | PBrace | PFun | PForBody | PAndLeft | PSubshell | PSubst | PPipeLast => st
  | PNeg => if N.eqb st 0 then 1 else 0
  | PIfCond | POrLeft | PFunInCond | PSubstIgn | PWhileCond | PUntilCond | PPipeFirst => 0
  end%N.

(* positions that are themselves a simple command, subshell or multi-command
   pipeline, to whose failure `set -e` applies *)
Definition pos_checked (p : position) : bool :=
  match p with
  | PFun | PSubshell | PSubst | PSubstIgn | PPipeLast | PPipeFirst => true
  | _ => false
  end.

Inductive xout := XAbort (st : N) | XGo (st : N).

Definition xcheck (e_on ex : bool) (st : N) : xout :=
  if negb (N.eqb st 0) && e_on && negb ex then XAbort st else XGo st.

(* [ex]: -e is ignored here (some enclosing position is exempt).  Returns what
   becomes of the environment that contains the outermost position. *)
Fixpoint xwalk (e_on ex : bool) (ps : list position) (v : xclass) : xout :=
  match ps with
  | [] =>
      match v with
      | XFatal st => XAbort st
      | XSoft st => match xcheck e_on ex st with
                    | XAbort a => XAbort a
                    | XGo _ => XGo 0        (* `probe 2` ran *)
                    end
      end
  | p :: ps' =>
      match xwalk e_on (ex || pos_exempt p) ps' v with
      | XAbort st =>
          match pos_isolating p with
          | None => XAbort st
          | Some propagates => xcheck e_on ex (if propagates then st else 0%N)
          end
      | XGo st =>
          if pos_checked p then xcheck e_on ex (pos_status p st) else XGo (pos_status p st)
      end
  end.

(* did `probe 2` (right after the victim, same environment) run? *)
Definition xinner_goes (e_on : bool) (ps : list position) (v : xclass) : bool :=
  match v with
  | XFatal _ => false
  | XSoft st =>
      match xcheck e_on (existsb pos_exempt ps) st with XAbort _ => false | XGo _ => true end
  end.

Definition xclass_status (v : xclass) : N := match v with XFatal st | XSoft st => st end.

Definition has_item (k st : N) (t : list (N * N)) : bool :=
  existsb (fun x => N.eqb (fst x) k && N.eqb (snd x) st) t.
Definition has_key (k : N) (t : list (N * N)) : bool := existsb (fun x => N.eqb (fst x) k) t.

(* The oracle: what the table says about an observation of [xscript x]. *)
Definition xoracle (x : xspec) (o : observation) : bool :=
  let v := xerr_class (x_err x) (x_viac x) in
  let top := xwalk (x_errexit x) false (x_pos x) v in
  let final := match top with XAbort st => st | XGo _ => 0%N end in
  (* the commands before the victim ran *)
  has_item 1 0 (fst o)
  (* `probe 2` ran exactly if the victim did not end its environment, and saw its status *)
  && Bool.eqb (has_key 2 (fst o)) (xinner_goes (x_errexit x) (x_pos x) v)
  && (negb (has_key 2 (fst o)) || has_item 2 (xclass_status v) (fst o))
  (* `probe 3` ran exactly if the script was not aborted *)
  && Bool.eqb (has_key 3 (fst o)) (match top with XGo _ => true | XAbort _ => false end)
  (* exit status: that of the failing command / the error status *)
  && N.eqb (snd o) final
  (* the EXIT trap ran exactly once, with `$?` = the exit status *)
  && (if x_trap x
      then Nat.eqb (count_key xtrap_key (fst o)) 1 && has_item xtrap_key final (fst o)
      else negb (has_key xtrap_key (fst o))).
