(* C10 — SPEC.  The semantics is the one of C02 (coq/C02/Spec.v), whose
   errexit flag [ex] is set exactly by the constructs POSIX lists (`set -e`:
   the compound list after if/elif/while/until, a pipeline beginning with `!`,
   every pipeline of an and-or list but the last) and inherited by everything
   executed inside (groups, functions called, subshells), and whose shell
   errors go through [shell_error].  Here, independently of both: the table of
   docs/src/termination.md "Shell errors" (non-interactive shell) and
   docs/src/language/commands/exit_status.md, as a finite function. *)
From Yv Require Export Common.Base C02.Model C02.Spec C10.Model.

Inductive documented :=
| DocExit (st : N)          (* the shell exits with this status *)
| DocExitWith               (* the shell exits with the status the built-in reported *)
| DocErrexit (st : N).      (* `$?` = st; the shell exits iff errexit applies *)

(* docs/src/termination.md, section "Shell errors", read for a non-interactive shell *)
Definition termination_md (site : error_site) : documented :=
  match site with
  | SiteSyntax => DocExit 2                 (* "Command syntax errors: the shell exits if non-interactive" *)
  | SiteSpecialBuiltin _ => DocExitWith     (* "Errors in special built-in utilities: exits if non-interactive" *)
  | SiteSpecialRedirection => DocExit 2     (* "This includes redirection errors for special built-ins" *)
  | SiteAssignment => DocExit 2             (* "Variable assignment errors and expansion errors: exits" *)
  | SiteExpansion => DocExit 2
  | SiteOtherRedirection => DocErrexit 2    (* "exits if errexit is set. Otherwise, continues" *)
  | SiteNotFound => DocErrexit 127          (* "many shells, including yash-rs, do not [exit]" *)
  end.

(* the documented behaviour as a completion and a state *)
Definition documented_outcome (site : error_site) (ex : bool) (s : state) : completion * state :=
  match termination_md site with
  | DocExit st => (Exiting, set_status st s)
  | DocExitWith =>
      match site with
      | SiteSpecialBuiltin st => (Exiting, set_status st s)
      | _ => (Exiting, s)
      end
  | DocErrexit st => done ex None (set_status st s)
  end.

Definition all_sites : list error_site :=
  [SiteSyntax; SiteSpecialBuiltin 1; SiteSpecialBuiltin 2; SiteSpecialRedirection;
   SiteAssignment; SiteExpansion; SiteOtherRedirection; SiteNotFound].

(* ---- counting probe keys (the EXIT trap of the harness probes a fresh key) ---- *)
Definition count_key (k : N) (t : list (N * N)) : nat :=
  length (filter (fun x => N.eqb (fst x) k) t).

(* Code that neither sets an EXIT trap, nor probes the key [k], nor defines a
   function named `probe` (used to state
   "the EXIT trap runs exactly once": the trap action of the script probes a
   key that occurs nowhere else). *)
Fixpoint plain_cmd (k : N) (c : cmd) {struct c} : bool :=
  match c with
  | CAssign _ _ | CReadonly _ => true
  | CCall _ nm args =>
      match nm with
      | NProbe => negb (N.eqb (hd 0%N args) k)
      | _ => true
      end
  | CBrace body | CSubshell body | CAssignSub _ body | CSubstArg body => plain_list k body
  | CIf cond body elifs _ els =>
      plain_list k cond && plain_list k body && plain_elifs k elifs && plain_list k els
  | CWhile _ cond body => plain_list k cond && plain_list k body
  | CFor _ _ body => plain_list k body
  | CCase _ items => plain_items k items
  | CAsync a => plain_andor k a
  | CPrefixCall _ _ nm args =>
      match nm with
      | NProbe => negb (N.eqb (hd 0%N args) k)
      | _ => true
      end
  | CFunDef nm body => negb (name_eqb nm NProbe) && plain_cmd k body
  | CTrapExit _ => false
  | CRedirFail c => plain_cmd k c
  end
with plain_list (k : N) (l : clist) {struct l} : bool :=
  match l with
  | LNil => true
  | LCons a l' => plain_andor k a && plain_list k l'
  end
with plain_andor (k : N) (a : andor) {struct a} : bool :=
  match a with AndOr first rest => plain_pipeline k first && plain_rest k rest end
with plain_rest (k : N) (r : aorest) {struct r} : bool :=
  match r with
  | RNil => true
  | RCons _ p r' => plain_pipeline k p && plain_rest k r'
  end
with plain_pipeline (k : N) (p : pipeline) {struct p} : bool :=
  match p with Pipe _ cs => plain_cmds k cs end
with plain_cmds (k : N) (cs : cmds) {struct cs} : bool :=
  match cs with
  | CNil => true
  | CCons c cs' => plain_cmd k c && plain_cmds k cs'
  end
with plain_elifs (k : N) (e : eliflist) {struct e} : bool :=
  match e with
  | ENil => true
  | ECons cond body e' => plain_list k cond && plain_list k body && plain_elifs k e'
  end
with plain_items (k : N) (is : itemlist) {struct is} : bool :=
  match is with
  | INil => true
  | ICons _ body _ is' => plain_list k body && plain_items k is'
  end.

Definition plain_line (k : N) (l : line) : bool :=
  match l with LCmd c => plain_list k c | LSyntaxError => true end.

(* the line   trap 'probe K ST' EXIT   *)
Definition probe_action (k st : N) : clist :=
  LCons (AndOr (Pipe false (CCons (CCall plain NProbe [k; st]) CNil)) RNil) LNil.
Definition trap_clist (k st : N) : clist :=
  LCons (AndOr (Pipe false (CCons (CTrapExit (probe_action k st)) CNil)) RNil) LNil.
Definition trap_line (k st : N) : line := LCmd (trap_clist k st).
