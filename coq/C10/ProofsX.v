(* C10 — proofs about the extension (further categories of shell errors at
   composed positions): by evaluation over the finite family. *)
From Yv Require Import Common.Base C02.Model C02.Spec C02.ProofsMono C02.ProofsSim C02.ProofsRev C02.Proofs C10.Model C10.Spec C10.Proofs.

Definition xfuel : nat := 200.

Definition all_bools : list bool := [false; true].

Definition positions_upto_1 : list (list position) := [] :: map (fun p => [p]) all_positions.
Definition positions_upto_2 : list (list position) :=
  positions_upto_1 ++ flat_map (fun p => map (fun q => [p; q]) all_positions) all_positions.
Definition positions_3 : list (list position) :=
  flat_map (fun p => flat_map (fun q => map (fun r => [p; q; r]) all_positions) all_positions) all_positions.

Definition xspecs_over (pss : list (list position)) : list xspec :=
  flat_map (fun e => flat_map (fun viac => flat_map (fun ee => flat_map (fun tr =>
    map (fun ps => mkX e viac ee tr ps) pss) all_bools) all_bools) all_bools) all_xerr.
Definition xspecs_upto_2 : list xspec := xspecs_over positions_upto_2.
Definition xspecs_3 : list xspec := xspecs_over positions_3.

Definition xmodel_ok (x : xspec) : bool :=
  match model_run xfuel (xscript x) with
  | Some o => xoracle x o && wf_prog (xscript x)
  | None => false
  end.

Lemma all_xerr_complete : forall e, In e all_xerr.
Proof. destruct e; cbv; tauto. Qed.

Lemma all_positions_complete : forall p, In p all_positions.
Proof. destruct p; cbv; tauto. Qed.

Lemma all_bools_complete : forall b, In b all_bools.
Proof. destruct b; cbv; tauto. Qed.

Lemma positions_upto_2_complete : forall ps, (length ps <= 2)%nat -> In ps positions_upto_2.
Proof.
  intros ps H. unfold positions_upto_2, positions_upto_1.
  destruct ps as [|p [|q [|r ps]]].
  - apply in_or_app; left; left; reflexivity.
  - apply in_or_app; left; right. apply in_map_iff. exists p; split; [reflexivity|apply all_positions_complete].
  - apply in_or_app; right. apply in_flat_map. exists p; split; [apply all_positions_complete|].
    apply in_map_iff. exists q; split; [reflexivity|apply all_positions_complete].
  - cbn in H. exfalso. repeat apply le_S_n in H. inversion H.
Qed.

Lemma xspecs_all_ok : forallb xmodel_ok xspecs_upto_2 = true.
Proof. vm_compute. reflexivity. Qed.

Lemma xspecs_3_all_ok : forallb xmodel_ok xspecs_3 = true.
Proof. vm_compute. reflexivity. Qed.

Lemma positions_3_complete : forall ps, length ps = 3%nat -> In ps positions_3.
Proof.
  intros ps H. destruct ps as [|p [|q [|r [|x ps]]]]; try discriminate.
  unfold positions_3.
  apply in_flat_map. exists p; split; [apply all_positions_complete|].
  apply in_flat_map. exists q; split; [apply all_positions_complete|].
  apply in_map_iff. exists r; split; [reflexivity|apply all_positions_complete].
Qed.

Lemma xspecs_over_complete : forall pss e viac ee tr ps, In ps pss ->
  In (mkX e viac ee tr ps) (xspecs_over pss).
Proof.
  intros pss e viac ee tr ps H. unfold xspecs_over.
  apply in_flat_map; exists e; split; [apply all_xerr_complete|].
  apply in_flat_map; exists viac; split; [apply all_bools_complete|].
  apply in_flat_map; exists ee; split; [apply all_bools_complete|].
  apply in_flat_map; exists tr; split; [apply all_bools_complete|].
  apply in_map_iff; exists ps; split; [reflexivity|exact H].
Qed.

Lemma xtable_lemma : forall x, (length (x_pos x) <= 3)%nat ->
  exists o, model_run xfuel (xscript x) = Some o /\ xoracle x o = true /\ wf_prog (xscript x) = true.
Proof.
  intros [e viac ee tr ps] H. cbn [x_pos] in H.
  assert (Hok : xmodel_ok (mkX e viac ee tr ps) = true).
  { destruct (Nat.eq_dec (length ps) 3) as [E|E].
    - apply (proj1 (forallb_forall _ _) xspecs_3_all_ok).
      apply xspecs_over_complete, positions_3_complete, E.
    - apply (proj1 (forallb_forall _ _) xspecs_all_ok).
      apply xspecs_over_complete, positions_upto_2_complete. lia. }
  unfold xmodel_ok in Hok.
  destruct (model_run xfuel (xscript (mkX e viac ee tr ps))) as [o|]; [|discriminate].
  apply andb_prop in Hok. destruct Hok as [H1 H2].
  exists o; repeat split; assumption.
Qed.

(* ---- the EXIT trap sees, and leaves, the exit status ---- *)

Lemma probe_action_flow k st m stk s r s' :
  lookup_fun NProbe (funs s) = None ->
  exec_list m stk (probe_action k st) s = Some (r, s') ->
  r = Cont \/ r = Brk (DExit None).
Proof.
  intros Hf H.
  do 5 (destruct m as [|m]; [discriminate|]).
  cbn [exec_list exec_andor exec_pipeline exec_commands probe_action] in H.
  cbn [exec_cmd via_command plain bad_redir] in H. unfold classify in H. cbn [is_special] in H.
  rewrite Hf in H. cbn [is_regular_builtin execute_builtin run_builtin] in H.
  cbn in H.
  destruct (apply_errexit stk _) eqn:E in H; inversion H; subst.
  - left; reflexivity.
  - right. unfold apply_errexit in E. destruct (_ && _) in E; [inversion E; reflexivity | discriminate].
Qed.

Lemma exit_trap_status_lemma k st p n r s1 o :
  forallb (plain_line k) p = true ->
  run_lines n (trap_line k st :: p) false init_state = Some (r, s1) ->
  model_run n (trap_line k st :: p) = Some o ->
  snd o = status (apply_result r s1) /\ In (k, snd o) (fst o).
Proof.
  intros Hp Hrl H. unfold model_run in H. rewrite Hrl in H.
  change (run_lines n (trap_line k st :: p) false init_state)
    with (match exec_list n [] (trap_clist k st) init_state with
          | None => None
          | Some (Brk dv, s1) => Some (Brk dv, s1)
          | Some (Cont, s1) => run_lines n p true s1
          end) in Hrl.
  destruct (exec_list n [] _ init_state) as [[r0 s0]|] eqn:E0; [|discriminate].
  destruct (trap_line_run k st n _ _ E0) as [-> ->].
  rename Hrl into El.
  assert (F0 : funs_plain k (trap_set_state k st)) by (split; [intros nm b E; discriminate | reflexivity]).
  destruct (lines_keep k n _ _ _ _ _ El Hp F0) as [[Kt Kc Kf] A].
  destruct (apply_result_keep r s1) as [At Ac].
  set (s2 := apply_result r s1) in *.
  assert (Ht : exit_trap s2 = Some (probe_action k st)) by (rewrite At, Kt; reflexivity).
  assert (Hf : lookup_fun NProbe (funs s2) = None).
  { unfold s2. destruct r as [|dv]; [exact (proj2 Kf)|]. cbn.
    destruct (divert_exit_status dv); exact (proj2 Kf). }
  assert (Hrun : exists s3, run_exit_trap n [] s2 = Some s3 /\ o = observe s3).
  { destruct r as [|[c|c|x|x|x|x]];
      try (destruct (run_exit_trap n [] s2) as [s3|]; [|discriminate];
           inversion H; subst o; eexists; split; reflexivity).
    exfalso. eapply A. reflexivity. }
  destruct Hrun as (s3 & Et & ->).
  destruct n as [|n]; [discriminate|]. cbn [run_exit_trap] in Et. rewrite Ht in Et.
  destruct (exec_list n [FTrap] (probe_action k st) s2) as [[ra sa]|] eqn:Ea; [|discriminate].
  pose proof (probe_action_run k st _ _ _ _ _ Hf Ea) as Htr.
  assert (Hs3 : s3 = set_status (status s2) sa).
  { destruct (probe_action_flow k st _ _ _ _ _ Hf Ea) as [-> | ->]; inversion Et; reflexivity. }
  unfold observe. cbn [fst snd]. subst s3. cbn [status set_status trace].
  split; [reflexivity|].
  apply in_rev. rewrite rev_involutive, Htr. left; reflexivity.
Qed.

(* the specification (C02/Spec.v: lexical exempt contexts, shell_error) assigns
   the same observation, so the table agrees with it as well *)
Lemma xtable_spec_lemma : forall x, (length (x_pos x) <= 3)%nat ->
  exists o, spec_result (xscript x) o /\ xoracle x o = true.
Proof.
  intros x H. destruct (xtable_lemma x H) as (o & Hm & Ho & Hw).
  exists o. split; [|exact Ho].
  apply (proj1 (model_eq_spec_lemma _ _ Hw)). exists xfuel. exact Hm.
Qed.

(* ---- the handlers of the further categories, for every stack and state ---- *)

Definition xstate_ok (s : state) : Prop :=
  lookup_fun NFalse (funs s) = None /\ lookup_var 2 (vars s) = None /\ is_ronly 9 s = false.

Definition ends_environment (r : flow) : bool :=
  match r with
  | Brk (DInterrupt _) | Brk (DExit _) => true
  | _ => false
  end.

Lemma xhandler_lemma : forall e viac stk s n, xstate_ok s ->
  exists r s1, exec_cmd (S (S n)) stk (xlower e viac) s = Some (r, s1) /\
    trace s1 = trace s /\
    match xerr_class e viac with
    | XFatal st => ends_environment r = true /\ status (apply_result r s1) = st
    | XSoft st => status s1 = st /\ r = apply_errexit stk s1
    end.
Proof.
  intros e viac stk s n (Hf & Hv & Hr).
  destruct e, viac; cbn [xlower xerr_class];
    cbn -[apply_errexit handle_expansion_error lookup_fun lookup_var is_ronly];
    unfold classify; cbn -[apply_errexit handle_expansion_error lookup_fun lookup_var is_ronly];
    try rewrite Hf; try rewrite Hv; try rewrite Hr;
    cbn -[apply_errexit handle_expansion_error lookup_fun lookup_var is_ronly].
  all: try (eexists; eexists; split; [reflexivity|]; split; [reflexivity|]; split; reflexivity).
  all: try (unfold handle_expansion_error; destruct (errexit_is_applicable stk s);
         eexists; eexists; split; [reflexivity|]; split; [reflexivity|]; split; reflexivity).
  all: try (match goal with |- context [apply_errexit ?k ?t] =>
           destruct (apply_errexit k t) eqn:E end;
         eexists; eexists; split; [reflexivity|]; split; [reflexivity|]; split;
         [reflexivity | cbn; try exact (eq_sym E); try reflexivity]).
  all: unfold handle_expansion_error; destruct (errexit_is_applicable stk s);
    eexists; eexists; (split; [reflexivity|]); (split; [reflexivity|]); split; reflexivity.
Qed.
