(* C10 — MODEL.  The model of command execution is shared with C02
   (coq/C02/Model.v: errexit_is_applicable / apply_errexit, the Condition
   frames, the error handlers of handle.rs, execute_builtin's special/regular
   divergence, the `command` built-in, read_eval_loop, run_exit_trap).  Here:
   the handlers gathered per kind of shell error, as the model uses them. *)
From Yv Require Export Common.Base C02.Model.

Inductive error_site :=
| SiteSyntax                (* runner.rs: parser error -> handle.rs *)
| SiteSpecialBuiltin (st : N) (* a special built-in reported an error with status st (common/report.rs) *)
| SiteSpecialRedirection    (* builtin.rs: redirection error, special built-in *)
| SiteAssignment            (* assign error -> handle.rs expansion handler *)
| SiteExpansion             (* handle.rs expansion handler *)
| SiteOtherRedirection      (* builtin.rs / function.rs / compound_command.rs: status 2, continue *)
| SiteNotFound.             (* status 127, continue *)

(* what the model does at such a site (the code paths of Model.v, collected) *)
Definition model_error_outcome (site : error_site) (stk : list frame) (s : state) : flow * state :=
  match site with
  | SiteSyntax => (Brk (DInterrupt (Some 2%N)), s)
  | SiteSpecialBuiltin st => (error_divert true, set_status st s)
  | SiteSpecialRedirection => execute_builtin NColon true true true stk [] s
  | SiteAssignment | SiteExpansion => (handle_expansion_error stk s, s)
  | SiteOtherRedirection => let s1 := set_status 2 s in (apply_errexit stk s1, s1)
  | SiteNotFound => let s1 := set_status 127 s in (apply_errexit stk s1, s1)
  end.
