(* C10 — MODEL.  The model of command execution is shared with C02
   (coq/C02/Model.v: errexit_is_applicable / apply_errexit, the Condition
   frames, the error handlers of handle.rs, execute_builtin's special/regular
   divergence, the `command` built-in, read_eval_loop, run_exit_trap).  Here:
   the handlers gathered per kind of shell error, as the model uses them. *)
From Yv Require Export Common.Base C02.Model.

Inductive error_site :=
| SiteSyntax                (* runner.rs: parser error -> handle.rs *)
| SiteSpecialBuiltin (st : N) (* a special built-in reported an error with status st (common/report.rs) *)
| SiteSpecialRedirection    (* builtin.rs: redirection error, special built-in *)
| SiteAssignment            (* assign error -> handle.rs expansion handler *)
| SiteExpansion             (* handle.rs expansion handler *)
| SiteOtherRedirection      (* builtin.rs / function.rs / compound_command.rs: status 2, continue *)
| SiteNotFound.             (* status 127, continue *)

(* what the model does at such a site (the code paths of Model.v, collected) *)
Definition model_error_outcome (site : error_site) (stk : list frame) (s : state) : flow * state :=
  match site with
  | SiteSyntax => (Brk (DInterrupt (Some 2%N)), s)
  | SiteSpecialBuiltin st => (error_divert true, set_status st s)
  | SiteSpecialRedirection => execute_builtin NColon true true true stk [] s
  | SiteAssignment | SiteExpansion => (handle_expansion_error stk s, s)
  | SiteOtherRedirection => let s1 := set_status 2 s in (apply_errexit stk s1, s1)
  | SiteNotFound => let s1 := set_status 127 s in (apply_errexit stk s1, s1)
  end.

(* ------------------------------------------------------------------ *)
(* Extension: further categories of shell errors (XCU 2.8.1 as          *)
(* implemented) planted at composable positions                        *)
(* ------------------------------------------------------------------ *)

(* The command language of the shared model (coq/C02/Model.v) has no `shift`,
   `unset`, `eval` ...; what these built-ins do when they fail is, as far as
   this property observes it (status, divert), what a command of the shared
   model does.  [xerr] names the planted error, [xlower] the command of the
   shared model that stands for it; the harness renders the REAL command
   (column "script text") and the real shell's behaviour is compared with the
   model's on the lowered script on every run.

   category              script text                 yash-rs code path
   XShiftTooMany         shift 5                     yash-builtin/src/shift.rs     report_failure  (1)
   XShiftOperand         shift 1 2                   shift.rs / common/syntax      report_error    (2)
   XUnsetReadonly        unset v3   (v3 read-only)   unset.rs                      report_failure  (1)
   XSetBadOption         set -o nosuchoption         set.rs                        report_error    (2)
   XReadonlyReassign     readonly v3=t1              typeset.rs (readonly)         report_failure  (1)
   XExportReadonly       export v3=t1                typeset.rs (export)           report_failure  (1)
   XExportSubstReadonly  export v3=$(true)           the same after the substitution ran       (1)
   XTimesOperand         times x                     times.rs                      report_error    (2)
   XReturnOperand        return x                    return.rs                     report_error    (2)
   XBreakOperand         break x                     break.rs                      report_error    (2)
   XDotNotFound          . /nonexistent/script       source/semantics.rs           report_failure  (1)
   XExecNotFound         exec /nonexistent/cmd       exec.rs: Divert::Exit, status 127, also through `command`
   XEvalSyntax           eval 'if'                   eval.rs -> read_eval_loop -> handle.rs syntax error: Interrupt(2), also through `command`
   XEvalSpecial          eval 'shift 5'              the inner special built-in's Interrupt passes through eval (and `command eval`)
   XTrapBadSignal        trap '' NOSUCH              trap.rs: status 1, NOT an error (POSIX: "shall not be considered an error")
   XExportSubstFails     export v4=$(exit 3)         the status of the substitution is not the status of export: 0
   XExecNotFoundPath     exec nonexistent_cmd        exec.rs, the PATH search fails: Divert::Abort, status 127
   XDotSyntax            . /synt.sh  (contains `if`) source -> read_eval_loop -> handle.rs syntax error: Interrupt(2), also through `command`
   XDotSpecial           . /shift.sh (contains `shift 5`)  the inner special built-in's Interrupt passes through `.`
   XPrefixShiftTooMany   v9=t0 shift 5               the error of a special built-in with an assignment prefix
   XEvalCommandSoft      eval 'command shift 5'      the error of a special built-in run through `command` INSIDE eval: only the
                                                     innermost Builtin frame decides (common/report.rs), status 1, the script goes on
   XDotCommandSoft       . /cshift.sh (contains `command shift 5`)   the same inside a dot script
   (the harness writes the two files first: `echo if >/synt.sh`, `echo 'shift 5' >/shift.sh`) *)
Inductive xerr :=
| XShiftTooMany | XShiftOperand | XUnsetReadonly | XSetBadOption | XReadonlyReassign
| XExportReadonly | XExportSubstReadonly | XTimesOperand | XReturnOperand | XBreakOperand
| XDotNotFound | XExecNotFound | XEvalSyntax | XEvalSpecial | XTrapBadSignal | XExportSubstFails
| XExecNotFoundPath | XDotSyntax | XDotSpecial | XPrefixShiftTooMany
| XEvalCommandSoft | XDotCommandSoft.

Definition all_xerr : list xerr :=
  [XShiftTooMany; XShiftOperand; XUnsetReadonly; XSetBadOption; XReadonlyReassign;
   XExportReadonly; XExportSubstReadonly; XTimesOperand; XReturnOperand; XBreakOperand;
   XDotNotFound; XExecNotFound; XEvalSyntax; XEvalSpecial; XTrapBadSignal; XExportSubstFails;
   XExecNotFoundPath; XDotSyntax; XDotSpecial; XPrefixShiftTooMany;
   XEvalCommandSoft; XDotCommandSoft].

(* [viac]: the command is run through the `command` built-in *)
Definition xlower (e : xerr) (viac : bool) : cmd :=
  let d := mkDeco false viac in
  match e with
  | XShiftTooMany | XUnsetReadonly | XReadonlyReassign | XExportReadonly
  | XExportSubstReadonly | XDotNotFound =>
      CCall d NDot []              (* status 1 + the error divert of the Builtin frame *)
  | XShiftOperand | XSetBadOption | XTimesOperand | XReturnOperand | XBreakOperand =>
      CCall d NBreak [0%N]         (* status 2 + the error divert of the Builtin frame *)
  | XExecNotFound | XExecNotFoundPath => CCall plain NExit [127%N]
  | XEvalSyntax | XDotSyntax => CAssign 0 (WReq 2)   (* v2 is never set: Interrupt(2) / Exit(2) *)
  | XEvalSpecial | XDotSpecial => CCall plain NDot []
  | XPrefixShiftTooMany =>
      (* the `command` built-in with an assignment prefix: the assignment is temporary and not observed *)
      if viac then CCall d NDot [] else CPrefixCall 9 (WLit 0) NDot []
  | XTrapBadSignal | XEvalCommandSoft | XDotCommandSoft => CCall d NFalse []
  | XExportSubstFails => CCall d NColon []
  end.

(* Positions; they compose: a list of positions is read outside-in. *)
Inductive position :=
| PBrace          (* { B; }                         *)
| PIfCond         (* if B; then :; fi               *)
| PAndLeft        (* { B; } && :                    *)
| POrLeft         (* { B; } || :                    *)
| PNeg            (* ! { B; }                       *)
| PFun            (* fI() { B; }; fI                *)
| PFunInCond      (* fI() { B; }; if fI; then :; fi *)
| PSubshell       (* ( B )                          *)
| PSubst          (* v0=$( B )                      *)
| PSubstIgn       (* : $( B )                       *)
| PWhileCond      (* while B; do break; done        *)
| PUntilCond      (* until B; do break; done        *)
| PForBody        (* for v0 in t0; do B; done       *)
| PPipeLast       (* probe 4 | { B; }               *)
| PPipeFirst.     (* { B; } | probe 4               *)

Definition all_positions : list position :=
  [PBrace; PIfCond; PAndLeft; POrLeft; PNeg; PFun; PFunInCond; PSubshell; PSubst; PSubstIgn;
   PWhileCond; PUntilCond; PForBody; PPipeLast; PPipeFirst].

Definition xpl (c : cmd) : pipeline := Pipe false (CCons c CNil).
Definition xao (c : cmd) : andor := AndOr (xpl c) RNil.
Fixpoint xcl (cs : list cmd) : clist :=
  match cs with [] => LNil | c :: cs' => LCons (xao c) (xcl cs') end.
Definition xprobe (k : N) : cmd := CCall plain NProbe [k].
Definition xcolon : cmd := CCall plain NColon [].
Definition xthen : clist := xcl [xcolon].

Definition xwrap (p : position) (i : N) (b : clist) : clist :=
  match p with
  | PBrace => xcl [CBrace b]
  | PIfCond => xcl [CIf b xthen ENil false LNil]
  | PAndLeft => LCons (AndOr (xpl (CBrace b)) (RCons true (xpl xcolon) RNil)) LNil
  | POrLeft => LCons (AndOr (xpl (CBrace b)) (RCons false (xpl xcolon) RNil)) LNil
  | PNeg => LCons (AndOr (Pipe true (CCons (CBrace b) CNil)) RNil) LNil
  | PFun => xcl [CFunDef (NUser i) (CBrace b); CCall plain (NUser i) []]
  | PFunInCond =>
      xcl [CFunDef (NUser i) (CBrace b);
           CIf (xcl [CCall plain (NUser i) []]) xthen ENil false LNil]
  | PSubshell => xcl [CSubshell b]
  | PSubst => xcl [CAssignSub 0 b]
  | PSubstIgn => xcl [CSubstArg b]
  | PWhileCond => xcl [CWhile false b (xcl [CCall plain NBreak []])]
  | PUntilCond => xcl [CWhile true b (xcl [CCall plain NBreak []])]
  | PForBody => xcl [CFor 0 [WLit 0] b]
  | PPipeLast => LCons (AndOr (Pipe false (CCons (xprobe 4) (CCons (CBrace b) CNil))) RNil) LNil
  | PPipeFirst => LCons (AndOr (Pipe false (CCons (CBrace b) (CCons (xprobe 4) CNil))) RNil) LNil
  end.

(* the function of the position at nesting level i is fI, I = number of positions inside it *)
Fixpoint xplant (ps : list position) (b : clist) : clist :=
  match ps with
  | [] => b
  | p :: ps' => xwrap p (N.of_nat (length ps')) (xplant ps' b)
  end.

Record xspec := mkX {
  x_err : xerr; x_viac : bool; x_errexit : bool; x_trap : bool; x_pos : list position }.

Definition xtrap_key : N := 9999.

(* [trap 'probe 9999' EXIT]
   v3=t0
   readonly v3
   [set -e]
   probe 1
   POSITIONS[ VICTIM; probe 2 ]
   probe 3 *)
Definition xscript (x : xspec) : prog :=
  (if x_trap x then [LCmd (xcl [CTrapExit (xcl [xprobe xtrap_key])])] else [])
  ++ [LCmd (xcl [CAssign 3 (WLit 0)]); LCmd (xcl [CReadonly 3])]
  ++ (if x_errexit x then [LCmd (xcl [CCall plain NSet [1%N]])] else [])
  ++ [LCmd (xcl [xprobe 1]);
      LCmd (xplant (x_pos x) (xcl [xlower (x_err x) (x_viac x); xprobe 2]));
      LCmd (xcl [xprobe 3])].
