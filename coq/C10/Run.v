(* C10 — what the correspondence check evaluates on every case. *)
From Yv Require Export Common.Base C02.Model C02.Spec C10.Model C10.Spec.

Inductive impl_out := IOk (o : observation) | ICrash.

(* a case: the script, the probe key used by its EXIT trap action (if it sets
   one; the key occurs nowhere else), whether the observation is unordered
   (stream run by the real `yash3` binary: probes are observed through files,
   so only how often each (key, `$?`) pair occurred is known), and what the
   real shell did *)
Definition case := (prog * option N * bool * option xspec * impl_out)%type.
(* the fourth component: the script is [xscript x] of the extension stream
   (further error categories at composed positions); then the table oracle
   [xoracle x] is evaluated on the implementation's output as well *)

Definition fuel : nat := 3000.

Fixpoint is_prefix (a b : list (N * N)) : bool :=
  match a, b with
  | [], _ => true
  | x :: a', y :: b' => pair_eqb N.eqb N.eqb x y && is_prefix a' b'
  | _ :: _, [] => false
  end.

Definition trace_eqb (a b : list (N * N)) : bool := list_eqb (pair_eqb N.eqb N.eqb) a b.

(* which clause of the property the implementation's output violates, given
   the output [e] the specification assigns *)
Definition diagnose (trapkey : option N) (e o : observation) : verdict :=
  let bad_trap :=
    match trapkey with
    | Some k => negb (Nat.eqb (count_key k (fst o)) (count_key k (fst e)))
    | None => false
    end in
  (* for "ran on" / "stopped early" the records of the trap action are left out *)
  let strip t := match trapkey with
                 | Some k => filter (fun x => negb (N.eqb (fst x) k)) t
                 | None => t
                 end in
  if bad_trap then 5%N
  else if trace_eqb (fst e) (fst o) then (if N.eqb (snd e) (snd o) then 0%N else 3%N)
  else if is_prefix (strip (fst e)) (strip (fst o)) && negb (trace_eqb (strip (fst e)) (strip (fst o))) then 4%N
  else if is_prefix (strip (fst o)) (strip (fst e)) && negb (trace_eqb (strip (fst e)) (strip (fst o))) then 6%N
  else 2%N.

(* multiset inclusion of sorted lists *)
Fixpoint sub_sorted (a b : list (N * N)) : bool :=
  match b with
  | [] => match a with [] => true | _ => false end
  | y :: b' =>
      match a with
      | [] => true
      | x :: a' => if pair_eqb N.eqb N.eqb x y then sub_sorted a' b' else
                   if item_leb y x then sub_sorted a b' else false
      end
  end.

Definition diagnose_unordered (trapkey : option N) (e o : observation) : verdict :=
  let bad_trap :=
    match trapkey with
    | Some k => negb (Nat.eqb (count_key k (fst o)) (count_key k (fst e)))
    | None => false
    end in
  let te := sort_trace (fst e) in
  let to := sort_trace (fst o) in
  if bad_trap then 5%N
  else if trace_eqb te to then (if N.eqb (snd e) (snd o) then 0%N else 3%N)
  else if sub_sorted te to then 4%N
  else if sub_sorted to te then 6%N
  else 2%N.

Definition run_case (c : case) : verdict :=
  let '(p, trapkey, unordered, xs, out) := c in
  match out with
  | ICrash => 7%N
  | IOk o =>
      let xtable :=
        match xs with
        | Some x => if xoracle x o then 0%N else 8%N
        | None => 0%N
        end in
      let oracle :=
        if negb (N.eqb xtable 0) then xtable
        else if wf_prog p then
          match spec_run fuel p with
          | Some e => if unordered then diagnose_unordered trapkey e o else diagnose trapkey e o
          | None => 99%N
          end
        else 0%N in
      match oracle with
      | 0%N =>
          match model_run fuel p with
          | Some m =>
              if unordered
              then (if trace_eqb (sort_trace (fst m)) (sort_trace (fst o)) && N.eqb (snd m) (snd o)
                    then 0%N else 1%N)
              else (if observation_eqb m o then 0%N else 1%N)
          | None => 99%N
          end
      | v => v
      end
  end.

Definition run_cases := run_cases_with run_case.
