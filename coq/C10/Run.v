(* C10 — what the correspondence check evaluates on every case. *)
From Yv Require Export Common.Base C02.Model C02.Spec C10.Model C10.Spec.

Inductive impl_out := IOk (o : observation) | ICrash.

(* a case: the script, the probe key used by its EXIT trap action (if it sets
   one; the key occurs nowhere else), and what the real shell did *)
Definition case := (prog * option N * impl_out)%type.

Definition fuel : nat := 3000.

Fixpoint is_prefix (a b : list (N * N)) : bool :=
  match a, b with
  | [], _ => true
  | x :: a', y :: b' => pair_eqb N.eqb N.eqb x y && is_prefix a' b'
  | _ :: _, [] => false
  end.

Definition trace_eqb (a b : list (N * N)) : bool := list_eqb (pair_eqb N.eqb N.eqb) a b.

(* which clause of the property the implementation's output violates, given
   the output [e] the specification assigns *)
Definition diagnose (trapkey : option N) (e o : observation) : verdict :=
  let bad_trap :=
    match trapkey with
    | Some k => negb (Nat.eqb (count_key k (fst o)) (count_key k (fst e)))
    | None => false
    end in
  if bad_trap then 5%N
  else if trace_eqb (fst e) (fst o) then (if N.eqb (snd e) (snd o) then 0%N else 3%N)
  else if is_prefix (fst e) (fst o) then 4%N
  else if is_prefix (fst o) (fst e) then 6%N
  else 2%N.

Definition run_case (c : case) : verdict :=
  let '(p, trapkey, out) := c in
  match out with
  | ICrash => 7%N
  | IOk o =>
      let oracle :=
        if wf_prog p then
          match spec_run fuel p with
          | Some e => diagnose trapkey e o
          | None => 99%N
          end
        else 0%N in
      match oracle with
      | 0%N =>
          match model_run fuel p with
          | Some m => if observation_eqb m o then 0%N else 1%N
          | None => 99%N
          end
      | v => v
      end
  end.

Definition run_cases := run_cases_with run_case.
