(* C10 — proofs. *)
From Yv Require Import Common.Base C02.Model C02.Spec C02.ProofsMono C02.ProofsSim C02.Proofs
  C10.Model C10.Spec.

(* ------------------------------------------------------------------ *)
(* errexit: the dynamic test is the lexical flag                       *)
(* ------------------------------------------------------------------ *)
Lemma errexit_test_lemma stk d infun ex s :
  ctx_ok stk d infun ex -> errexit_is_applicable stk s = errexit s && negb ex.
Proof. intros [A _ _]. subst ex. reflexivity. Qed.

Lemma errexit_sim_lemma n stk c s r s' d infun ex :
  exec_cmd n stk c s = Some (r, s') -> ctx_ok stk d infun ex ->
  wf_cmd d infun c = true -> state_ok s ->
  forall sv, exists m, sem_cmd m d ex sv c s = Some (abs sv r s').
Proof.
  intros H Hc Hw Hs sv.
  destruct (sa_cmd _ (sim_holds n) _ _ _ _ _ _ _ _ H Hc Hw Hs) as (_ & _ & Hok).
  apply ok_some. exact (Hok sv).
Qed.

(* when errexit makes the shell exit *)
Lemma errexit_abort_lemma stk s dv :
  apply_errexit stk s = Brk dv ->
  dv = DExit None /\ status s <> 0%N /\ errexit s = true /\ has_cond stk = false.
Proof.
  unfold apply_errexit, errexit_is_applicable, has_cond.
  destruct (N.eqb (status s) 0) eqn:E; cbn [negb andb]; [discriminate|].
  destruct (errexit s); cbn [andb]; [|discriminate].
  destruct (existsb frame_is_condition stk); cbn [negb]; [discriminate|].
  intros H; inversion H. repeat split; auto. apply N.eqb_neq. exact E.
Qed.

(* ------------------------------------------------------------------ *)
(* the table of shell errors                                           *)
(* ------------------------------------------------------------------ *)
Lemma shell_error_table_lemma site stk s ex :
  ex = has_cond stk ->
  let '(r, s1) := model_error_outcome site stk s in
  abs None r s1 = documented_outcome site ex s.
Proof.
  intros He. destruct site; cbn [model_error_outcome documented_outcome termination_md].
  - reflexivity.
  - reflexivity.
  - reflexivity.
  - unfold handle_expansion_error. destruct (errexit_is_applicable stk s); reflexivity.
  - unfold handle_expansion_error. destruct (errexit_is_applicable stk s); reflexivity.
  - cbv zeta. apply abs_apply_errexit. exact He.
  - cbv zeta. apply abs_apply_errexit. exact He.
Qed.

Definition kind_of (site : error_site) : error_kind * N :=
  match site with
  | SiteSyntax => (ErrSyntax, 0%N)
  | SiteSpecialBuiltin st => (ErrSpecialBuiltin, st)
  | SiteSpecialRedirection => (ErrSpecialRedirection, 0%N)
  | SiteAssignment => (ErrAssignment, 0%N)
  | SiteExpansion => (ErrExpansion, 0%N)
  | SiteOtherRedirection => (ErrOtherRedirection, 0%N)
  | SiteNotFound => (ErrNotFound, 0%N)
  end.

Lemma spec_uses_documented_table site ex s :
  shell_error (fst (kind_of site)) (snd (kind_of site)) ex None s = documented_outcome site ex s.
Proof. destruct site; reflexivity. Qed.

(* ------------------------------------------------------------------ *)
(* nothing runs after the abort point                                  *)
(* ------------------------------------------------------------------ *)
Fixpoint capp (l1 l2 : clist) : clist :=
  match l1 with
  | LNil => l2
  | LCons a l => LCons a (capp l l2)
  end.

Lemma list_abort_lemma : forall n stk l1 l2 s dv s1,
  exec_list n stk l1 s = Some (Brk dv, s1) -> exec_list n stk (capp l1 l2) s = Some (Brk dv, s1).
Proof.
  induction n as [|n IH]; intros stk l1 l2 s dv s1 H; [discriminate|].
  destruct l1 as [|a l1]; cbn [exec_list capp] in *; [discriminate|].
  destruct (exec_andor n stk a s) as [[r sa]|]; [|discriminate].
  destruct r; [apply IH; exact H | exact H].
Qed.

Lemma lines_abort : forall n p1 p2 e s dv s1,
  run_lines n p1 e s = Some (Brk dv, s1) -> run_lines n (p1 ++ p2) e s = Some (Brk dv, s1).
Proof.
  induction p1 as [|l p1 IH]; intros p2 e s dv s1 H; cbn [run_lines app] in *; [discriminate|].
  destruct l as [l|]; [|exact H].
  destruct (exec_list n [] l s) as [[r sl]|]; [|discriminate].
  destruct r; [apply IH; exact H | exact H].
Qed.

Lemma after_abort_lemma n p1 p2 dv s1 :
  run_lines n p1 false init_state = Some (Brk dv, s1) -> model_run n (p1 ++ p2) = model_run n p1.
Proof. intros H. unfold model_run. rewrite (lines_abort _ _ p2 _ _ _ _ H), H. reflexivity. Qed.

(* ------------------------------------------------------------------ *)
(* the exit status of an aborted run                                   *)
(* ------------------------------------------------------------------ *)
Lemma abort_status_lemma n p r s1 o :
  run_lines n p false init_state = Some (r, s1) -> model_run n p = Some o ->
  exit_trap s1 = None ->
  snd o = match r with
          | Cont => status s1
          | Brk dv => match divert_exit_status dv with Some st => st | None => status s1 end
          end.
Proof.
  intros H Hm Ht. unfold model_run in Hm. rewrite H in Hm.
  assert (Et : exit_trap (apply_result r s1) = None).
  { destruct r as [|dv]; [exact Ht|]. cbn. destruct (divert_exit_status dv); exact Ht. }
  assert (Hs : forall m s3, run_exit_trap m [] (apply_result r s1) = Some s3 -> s3 = apply_result r s1).
  { intros [|m] s3 E; [discriminate|]. cbn [run_exit_trap] in E. rewrite Et in E. congruence. }
  assert (Ho : o = observe (apply_result r s1)).
  { destruct r as [|[c|c|x|x|x|x]];
      try (destruct (run_exit_trap n [] _) as [s3|] eqn:E; [|discriminate];
           rewrite (Hs _ _ E) in Hm; congruence).
    congruence. }
  subst o. destruct r as [|dv]; [reflexivity|]. cbn [apply_result].
  destruct (divert_exit_status dv); reflexivity.
Qed.

(* ------------------------------------------------------------------ *)
(* the EXIT trap runs exactly once                                     *)
(* ------------------------------------------------------------------ *)
Section Once.
Variable k : N.

Definition funs_plain (s : state) : Prop :=
  (forall nm b, lookup_fun nm (funs s) = Some b -> plain_cmd k b = true)
  /\ lookup_fun NProbe (funs s) = None.

(* what code without traps and without the key leaves unchanged *)
Record keep (s s' : state) : Prop := {
  k_trap : exit_trap s' = exit_trap s;
  k_count : count_key k (trace s') = count_key k (trace s);
  k_funs : funs_plain s'
}.

Lemma keep_refl s : funs_plain s -> keep s s.
Proof. intros F; split; auto. Qed.

Lemma keep_trans s1 s2 s3 : keep s1 s2 -> keep s2 s3 -> keep s1 s3.
Proof. intros [A B C] [A' B' C']; split; congruence || auto. Qed.

Lemma keep_same s s' : exit_trap s' = exit_trap s -> trace s' = trace s -> funs s' = funs s ->
  funs_plain s -> keep s s'.
Proof. intros A B C F; split; auto; [rewrite B; reflexivity | unfold funs_plain; rewrite C; exact F]. Qed.

Definition not_abort (r : flow) : Prop := forall o, r <> Brk (DAbort o).

Definition good (s : state) (out : option res) : Prop :=
  forall r s', out = Some (r, s') -> keep s s' /\ not_abort r.

Lemma not_abort_errexit stk s : not_abort (apply_errexit stk s).
Proof. unfold apply_errexit, not_abort. destruct (_ && _); intros; discriminate. Qed.

Lemma not_abort_expansion stk s : not_abort (handle_expansion_error stk s).
Proof. unfold handle_expansion_error, not_abort. destruct (errexit_is_applicable stk s); intros; discriminate. Qed.

Lemma good_ret s r s' : keep s s' -> not_abort r -> good s (Some (r, s')).
Proof. intros K A r0 s0 E; inversion E; subst; auto. Qed.

Lemma good_none s : good s None.
Proof. intros r s' E; discriminate. Qed.

Lemma good_keep s s1 out : keep s s1 -> good s1 out -> good s out.
Proof. intros K G r s' E. destruct (G r s' E) as [K' A]. split; [eapply keep_trans; eauto | exact A]. Qed.

(* the frequent shape: stop at a divert, go on after a normal completion *)
Lemma good_seq s (o1 : option res) (f : state -> option res) :
  good s o1 -> (forall s1, keep s s1 -> good s1 (f s1)) ->
  good s (match o1 with
          | None => None
          | Some (Brk dv, s1) => Some (Brk dv, s1)
          | Some (Cont, s1) => f s1
          end).
Proof.
  intros G1 G2. destruct o1 as [[[|dv] s1]|]; [| |apply good_none].
  - destruct (G1 _ _ eq_refl) as [K _]. eapply good_keep; [exact K | apply G2; exact K].
  - destruct (G1 _ _ eq_refl) as [K A]. apply good_ret; assumption.
Qed.

Lemma keep_status s st : funs_plain s -> keep s (set_status st s).
Proof. intros F; apply keep_same; auto. Qed.

Definition once_at (n : nat) : Prop :=
  (forall stk c s, plain_cmd k c = true -> funs_plain s -> good s (exec_cmd n stk c s))
  /\ (forall stk b s c', run_subshell n stk b s = Some c' -> plain_list k b = true -> funs_plain s ->
        count_key k (trace c') = count_key k (trace s))
  /\ (forall stk e he els s, plain_elifs k e = true -> plain_list k els = true -> funs_plain s ->
        good s (exec_elifs n stk e he els s))
  /\ (forall stk c ex b s reg r s1 reg1, loop_iterate n stk c ex b s reg = Some (r, s1, reg1) ->
        plain_list k c = true -> plain_list k b = true -> funs_plain s -> keep s s1 /\ not_abort r)
  /\ (forall stk c ex b s reg r s1 reg1, loop_execute n stk c ex b s reg = Some (r, s1, reg1) ->
        plain_list k c = true -> plain_list k b = true -> funs_plain s -> keep s s1 /\ not_abort r)
  /\ (forall stk x vs b s, plain_list k b = true -> funs_plain s -> good s (exec_for n stk x vs b s))
  /\ (forall stk sj it ft up s, plain_items k it = true -> funs_plain s ->
        good s (exec_items n stk sj it ft up s))
  /\ (forall stk l s, plain_list k l = true -> funs_plain s -> good s (exec_list n stk l s))
  /\ (forall stk a s, plain_andor k a = true -> funs_plain s -> good s (exec_andor n stk a s))
  /\ (forall stk r s, plain_rest k r = true -> funs_plain s -> good s (exec_rest n stk r s))
  /\ (forall stk p s, plain_pipeline k p = true -> funs_plain s -> good s (exec_pipeline n stk p s))
  /\ (forall stk cs s, plain_cmds k cs = true -> funs_plain s -> good s (exec_commands n stk cs s))
  /\ (forall stk cs s0 acc acc', exec_multi n stk cs s0 acc = Some acc' ->
        plain_cmds k cs = true -> funs_plain s0 ->
        exit_trap acc = exit_trap s0 -> funs acc = funs s0 ->
        exit_trap acc' = exit_trap s0 /\ funs acc' = funs s0 /\
        count_key k (trace acc') = count_key k (trace acc)).

Lemma trap_none n stk s s' : run_exit_trap n stk s = Some s' -> exit_trap s = None -> s' = s.
Proof. destruct n; [discriminate|]. cbn [run_exit_trap]. intros H E. rewrite E in H. congruence. Qed.

Lemma apply_result_keep r s : exit_trap (apply_result r s) = exit_trap s /\ trace (apply_result r s) = trace s.
Proof. destruct r as [|dv]; [auto|]. cbn. destruct (divert_exit_status dv); auto. Qed.

Lemma count_push key st t : count_key k ((key, st) :: t) = (if N.eqb key k then S (count_key k t) else count_key k t).
Proof. unfold count_key. cbn. destruct (N.eqb key k); reflexivity. Qed.

Lemma builtin_keep nm spf stk args s st dv s' :
  run_builtin nm spf stk args s = ((st, dv), s') ->
  (match nm with NProbe => negb (N.eqb (hd 0%N args) k) | _ => true end) = true ->
  funs_plain s -> keep s (set_status st s') /\ not_abort dv.
Proof.
  intros H Hp F. destruct nm; cbn [run_builtin] in H.
  - inversion H; subst. split; [apply keep_status; exact F | intros o; discriminate].
  - unfold builtin_break in H. destruct (parse_count args); [destruct (loop_count _ _)|];
      inversion H; subst; (split; [apply keep_status; exact F | unfold error_divert; destruct spf; intros o; discriminate]).
  - unfold builtin_break in H. destruct (parse_count args); [destruct (loop_count _ _)|];
      inversion H; subst; (split; [apply keep_status; exact F | unfold error_divert; destruct spf; intros o; discriminate]).
  - unfold builtin_return in H. destruct args as [|a [|b args]]; inversion H; subst;
      (split; [apply keep_status; exact F | unfold error_divert; try destruct spf; intros o; discriminate]).
  - unfold builtin_return in H. destruct args as [|a [|b args]]; inversion H; subst;
      (split; [apply keep_status; exact F | unfold error_divert; try destruct spf; intros o; discriminate]).
  - inversion H; subst. split; [apply keep_same; auto | intros o; discriminate].
  - inversion H; subst. split; [apply keep_status; exact F | intros o; discriminate].
  - inversion H; subst. split; [apply keep_status; exact F | unfold error_divert; destruct spf; intros o; discriminate].
  - inversion H; subst. split; [|intros o; discriminate].
    split; [reflexivity | | exact F].
    cbn [trace set_status push_trace set_trace]. rewrite count_push.
    apply negb_true_iff in Hp. rewrite Hp. reflexivity.
  - inversion H; subst. split; [apply keep_status; exact F | intros o; discriminate].
  - inversion H; subst. split; [apply keep_status; exact F | intros o; discriminate].
  - destruct (job_wait args s) as [stw sw] eqn:Ew. inversion H; subst.
    split; [|intros o; discriminate]. unfold job_wait in Ew.
    destruct (match args with [_] => last_async s | _ => None end);
      [destruct (lookup_job n (jobs s))|]; inversion Ew; subst; apply keep_same; auto.
  - inversion H; subst. split; [apply keep_status; exact F | intros o; discriminate].
Qed.

Ltac split_and H := repeat match goal with H' : _ && _ = true |- _ => apply andb_true_iff in H'; destruct H' end.

Lemma once_holds : forall n, once_at n.
Proof.
  induction n as [|n IH].
  - repeat split; try (intros; apply good_none); intros; discriminate.
  - destruct IH as (Icmd & Isub & Ielifs & Iiter & Iexec & Ifor & Iitems & Ilist & Iandor & Irest
                     & Ipipe & Icmds & Imulti).
    refine (conj _ (conj _ (conj _ (conj _ (conj _ (conj _ (conj _ (conj _ (conj _ (conj _ (conj _ (conj _ _)))))))))))).
    + (* exec_cmd *)
      intros stk c s Hp F. destruct c; cbn [exec_cmd]; cbn [plain_cmd] in Hp.
      all: try (apply andb_true_iff in Hp as [Hp Hpl]; apply andb_true_iff in Hp as [Hp Hpe]; apply andb_true_iff in Hp as [Hpc Hpb]).
      all: try (apply andb_true_iff in Hp as [Hpc Hpb]).
      * destruct (expand_word w s); [destruct (is_ronly x s)|].
        -- apply good_ret; [apply keep_refl; exact F | apply not_abort_expansion].
        -- apply good_ret; [| apply not_abort_errexit].
           apply keep_same; auto.
        -- apply good_ret; [apply keep_refl; exact F | apply not_abort_expansion].
      * apply good_ret; [apply keep_same; auto | apply not_abort_errexit].
      * (* x=$(body) *)
        destruct (run_subshell n stk body s) as [child|] eqn:Es; [|apply good_none].
        pose proof (Isub _ _ _ _ Es Hp F) as Hcount.
        destruct (is_ronly x s).
        -- apply good_ret; [|apply not_abort_expansion]. split; [reflexivity | exact Hcount | exact F].
        -- apply good_ret; [|apply not_abort_errexit]. split; [reflexivity | exact Hcount | exact F].
      * (* : $(body) *)
        destruct (run_subshell n stk body s) as [child|] eqn:Es; [|apply good_none].
        pose proof (Isub _ _ _ _ Es Hp F) as Hcount.
        apply good_ret; [|apply not_abort_errexit]. split; [reflexivity | exact Hcount | exact F].
      * (* { a & } *)
        assert (Hpl : plain_list k (LCons a LNil) = true) by (cbn [plain_list]; rewrite Hp; reflexivity).
        destruct (run_subshell n stk (LCons a LNil) s) as [child|] eqn:Es; [|apply good_none].
        pose proof (Isub _ _ _ _ Es Hpl F) as Hcount.
        apply good_ret; [|intros o; discriminate]. split; [reflexivity | exact Hcount | exact F].
      * (* x=w NAME ARGS *)
        destruct (expand_word w s);
          [|apply good_ret; [apply keep_refl; exact F | apply not_abort_expansion]].
        destruct (is_ronly x s);
          [apply good_ret; [apply keep_refl; exact F | apply not_abort_expansion]|].
        assert (F0 : funs_plain (set_var x (hd_error l) s)) by exact F.
        assert (Hp0 : plain_cmd k (CCall plain nm args) = true) by exact Hp.
        specialize (Icmd stk (CCall plain nm args) _ Hp0 F0).
        destruct (exec_cmd n stk (CCall plain nm args) (set_var x (hd_error l) s)) as [[r1 s1]|];
          [|apply good_none].
        destruct (Icmd _ _ eq_refl) as [[Kt Kc Kf] A].
        apply good_ret; [|exact A].
        destruct (is_special nm); split; auto.
      * (* call *)
        assert (Hfin : forall (o : option res), good s o ->
                  good s (match o with
                          | None => None
                          | Some (Brk dv, s1) => Some (Brk dv, s1)
                          | Some (Cont, s1) => Some (apply_errexit stk s1, s1)
                          end)).
        { intros o G. apply (good_seq s o (fun s1 => Some (apply_errexit stk s1, s1))); [exact G|].
          intros s1 K. apply good_ret; [apply keep_refl; exact (k_funs _ _ K) | apply not_abort_errexit]. }
        apply Hfin.
        destruct (via_command d).
        -- destruct (bad_redir d); [apply good_ret; [apply keep_status; exact F | intros o; discriminate]|].
           destruct (classify_via_command nm);
             try (apply good_ret; [apply keep_status; exact F | intros o; discriminate]).
           destruct (run_builtin nm false (FBuiltin :: FBuiltin :: stk) args s) as [[st dv] s1] eqn:Eb.
           destruct (builtin_keep _ _ _ _ _ _ _ _ Eb Hp F) as [K A].
           apply good_ret; [exact K|]. destruct dv; [intros o; discriminate | exact A].
        -- destruct (classify nm s) as [special|body|] eqn:Ec.
           ++ unfold execute_builtin. destruct (bad_redir d).
              ** destruct special; (apply good_ret; [apply keep_status; exact F | intros o; discriminate]).
              ** destruct (run_builtin nm special (FBuiltin :: stk) args s) as [[st dv] s1] eqn:Eb.
                 destruct (builtin_keep _ _ _ _ _ _ _ _ Eb Hp F) as [K A].
                 apply good_ret; [exact K | exact A].
           ++ destruct (bad_redir d); [apply good_ret; [apply keep_status; exact F | intros o; discriminate]|].
              assert (Hb : plain_cmd k body = true).
              { unfold classify in Ec. destruct (is_special nm); [discriminate|].
                destruct (lookup_fun nm (funs s)) eqn:El; [|destruct (is_regular_builtin nm); discriminate].
                inversion Ec; subst. exact (proj1 F _ _ El). }
              specialize (Icmd stk body s Hb F).
              destruct (exec_cmd n stk body s) as [[rb sb]|]; [|apply good_none].
              destruct (Icmd _ _ eq_refl) as [K A].
              destruct rb as [|[c|c|o|o|o|o]]; try (apply good_ret; [exact K | exact A]).
              apply good_ret; [|intros o'; discriminate].
              destruct o; [eapply keep_trans; [exact K | apply keep_status; exact (k_funs _ _ K)] | exact K].
           ++ apply good_ret; [apply keep_status; exact F | intros o; discriminate].
      * apply Ilist; assumption.
      * destruct (run_subshell n stk body s) as [child|] eqn:Es; [|apply good_none].
        apply good_ret; [|apply not_abort_errexit].
        split; [reflexivity | exact (Isub _ _ _ _ Es Hp F) | exact F].
      * apply (good_seq s (exec_list n (FCondition :: stk) cond s)
                 (fun s1 => if N.eqb (status s1) 0 then exec_list n stk body s1
                            else exec_elifs n stk elifs has_else els s1)).
        -- apply Ilist; assumption.
        -- intros s1 K. destruct (N.eqb (status s1) 0);
             [apply Ilist | apply Ielifs]; auto; exact (k_funs _ _ K).
      * destruct (loop_execute n (FLoop :: stk) cond (negb is_until) body s 0) as [[[r s1] reg]|] eqn:El;
          [|apply good_none].
        destruct (Iexec _ _ _ _ _ _ _ _ _ El Hpc Hpb F) as [K A].
        destruct r; apply good_ret; auto;
          try (eapply keep_trans; [exact K | apply keep_status; exact (k_funs _ _ K)]);
          try (intros o; discriminate).
      * destruct (expand_words ws s) as [[|v vs]|].
        -- destruct (negb (clist_is_empty body));
             (apply good_ret; [first [apply keep_status; exact F | apply keep_refl; exact F] | intros o; discriminate]).
        -- apply Ifor; assumption.
        -- apply good_ret; [apply keep_refl; exact F | apply not_abort_expansion].
      * destruct (expand_word w s).
        -- apply Iitems; assumption.
        -- apply good_ret; [apply keep_refl; exact F | apply not_abort_expansion].
      * apply negb_true_iff in Hpc.
        apply good_ret; [|apply not_abort_errexit].
        split; [reflexivity | reflexivity |]. split.
        -- intros nm' b. cbn. destruct (name_eqb nm' nm); [intros E; inversion E; subst; exact Hpb | apply (proj1 F)].
        -- cbn. destruct nm; try discriminate; exact (proj2 F).
      * discriminate.
      * apply good_ret; [apply keep_status; exact F | apply not_abort_errexit].
    + (* run_subshell *)
      intros stk b s c' H Hp F. cbn [run_subshell] in H.
      assert (Fc : funs_plain (child_state s)) by exact F.
      specialize (Ilist (FSubshell :: stk) b (child_state s) Hp Fc).
      destruct (exec_list n (FSubshell :: stk) b (child_state s)) as [[r c1]|]; [|discriminate].
      destruct (Ilist _ _ eq_refl) as [[Kt Kc Kf] _].
      destruct (apply_result_keep r c1) as [At Ac].
      assert (Hn : exit_trap (apply_result r c1) = None) by (rewrite At, Kt; reflexivity).
      rewrite (trap_none _ _ _ _ H Hn). rewrite Ac, Kc. reflexivity.
    + (* exec_elifs *)
      intros stk e he els s Hp Hl F. cbn [exec_elifs]. destruct e as [|cond body e'].
      * destruct he; [apply Ilist; assumption | apply good_ret; [apply keep_status; exact F | intros o; discriminate]].
      * cbn [plain_elifs] in Hp. split_and Hp.
        apply (good_seq s (exec_list n (FCondition :: stk) cond s)
                 (fun s1 => if N.eqb (status s1) 0 then exec_list n stk body s1
                            else exec_elifs n stk e' he els s1)).
        -- apply Ilist; assumption.
        -- intros s1 K. destruct (N.eqb (status s1) 0);
             [apply Ilist | apply Ielifs]; auto; exact (k_funs _ _ K).
    + (* loop_iterate *)
      intros stk c ex b s reg r s1 reg1 H Hc Hb F. cbn [loop_iterate] in H.
      specialize (Ilist (FCondition :: stk) c s Hc F) as G1.
      destruct (exec_list n (FCondition :: stk) c s) as [[rc sc]|]; [|discriminate].
      destruct (G1 _ _ eq_refl) as [K1 A1].
      destruct rc; [|inversion H; subst; auto].
      destruct (Bool.eqb _ _); [|inversion H; subst; split; [exact K1 | intros o; discriminate]].
      specialize (Ilist stk b sc Hb (k_funs _ _ K1)) as G2.
      destruct (exec_list n stk b sc) as [[rb sb]|]; [|discriminate].
      destruct (G2 _ _ eq_refl) as [K2 A2].
      destruct rb.
      * destruct (Iiter _ _ _ _ _ _ _ _ _ H Hc Hb (k_funs _ _ K2)) as [K3 A3].
        split; [eapply keep_trans; [exact K1 | eapply keep_trans; [exact K2 | exact K3]] | exact A3].
      * inversion H; subst. split; [eapply keep_trans; [exact K1 | exact K2] | exact A2].
    + (* loop_execute *)
      intros stk c ex b s reg r s1 reg1 H Hc Hb F. cbn [loop_execute] in H.
      destruct (loop_iterate n stk c ex b s reg) as [[[ri si] regi]|] eqn:Ei; [|discriminate].
      destruct (Iiter _ _ _ _ _ _ _ _ _ Ei Hc Hb F) as [K1 A1].
      destruct ri as [|[[|c0]|[|c0]|o|o|o|o]]; try (inversion H; subst; split; [exact K1 | first [exact A1 | intros o'; discriminate]]).
      destruct (Iexec _ _ _ _ _ _ _ _ _ H Hc Hb (k_funs _ _ K1)) as [K2 A2].
      split; [eapply keep_trans; [exact K1 | exact K2] | exact A2].
    + (* exec_for *)
      intros stk x vs b s Hb F. cbn [exec_for]. destruct vs as [|v vs'].
      * apply good_ret; [apply keep_refl; exact F | intros o; discriminate].
      * destruct (is_ronly x s);
          [apply good_ret; [apply keep_refl; exact F | apply not_abort_expansion]|].
        assert (Fv : funs_plain (set_var x (Some v) s)) by exact F.
        assert (Kv : keep s (set_var x (Some v) s)) by (apply keep_same; auto).
        specialize (Ilist stk b (set_var x (Some v) s) Hb Fv) as G1.
        destruct (exec_list n stk b (set_var x (Some v) s)) as [[rb sb]|]; [|apply good_none].
        destruct (G1 _ _ eq_refl) as [K1 A1].
        assert (K : keep s sb) by (eapply keep_trans; [exact Kv | exact K1]).
        destruct rb as [|[[|c0]|[|c0]|o|o|o|o]];
          try (apply good_ret; [exact K | first [exact A1 | intros o'; discriminate]]);
          (eapply good_keep; [exact K | apply Ifor; [exact Hb | exact (k_funs _ _ K)]]).
    + (* exec_items *)
      intros stk sj it ft up s Hp F. cbn [exec_items]. destruct it as [|pats body kc it'].
      * destruct up; apply good_ret; try (intros o; discriminate);
          [apply keep_refl; exact F | apply keep_status; exact F].
      * cbn [plain_items] in Hp. split_and Hp.
        destruct (ft || existsb (match_pat sj) pats); [|apply Iitems; assumption].
        specialize (Ilist stk body s ltac:(assumption) F) as G1.
        destruct (exec_list n stk body s) as [[rb sb]|]; [|apply good_none].
        destruct (G1 _ _ eq_refl) as [K1 A1].
        destruct rb; [|apply good_ret; assumption].
        destruct kc.
        -- apply good_ret; [|intros o; discriminate].
           destruct (negb (clist_is_empty body)); [exact K1|].
           eapply keep_trans; [exact K1 | apply keep_status; exact (k_funs _ _ K1)].
        -- eapply good_keep; [exact K1 | apply Iitems; [assumption | exact (k_funs _ _ K1)]].
        -- eapply good_keep; [exact K1 | apply Iitems; [assumption | exact (k_funs _ _ K1)]].
    + (* exec_list *)
      intros stk l s Hp F. cbn [exec_list]. destruct l as [|a l'].
      * apply good_ret; [apply keep_refl; exact F | intros o; discriminate].
      * cbn [plain_list] in Hp. split_and Hp.
        apply (good_seq s (exec_andor n stk a s) (fun s1 => exec_list n stk l' s1)).
        -- apply Iandor; assumption.
        -- intros s1 K. apply Ilist; [assumption | exact (k_funs _ _ K)].
    + (* exec_andor *)
      intros stk a s Hp F. cbn [exec_andor]. destruct a as [first rest].
      cbn [plain_andor] in Hp. split_and Hp.
      destruct rest as [|op p rest'].
      * apply Ipipe; assumption.
      * apply (good_seq s (exec_pipeline n (FCondition :: stk) first s)
                 (fun s1 => exec_rest n stk (RCons op p rest') s1)).
        -- apply Ipipe; assumption.
        -- intros s1 K. apply Irest; [assumption | exact (k_funs _ _ K)].
    + (* exec_rest *)
      intros stk r s Hp F. cbn [exec_rest]. destruct r as [|op p r'].
      * apply good_ret; [apply keep_refl; exact F | intros o; discriminate].
      * cbn [plain_rest] in Hp. split_and Hp.
        destruct r' as [|op' p' r''].
        -- destruct (Bool.eqb _ _); [apply Ipipe; assumption|].
           apply good_ret; [apply keep_refl; exact F | intros o; discriminate].
        -- apply (good_seq s
                    (if Bool.eqb (N.eqb (status s) 0) op then exec_pipeline n (FCondition :: stk) p s
                     else Some (Cont, s))
                    (fun s1 => exec_rest n stk (RCons op' p' r'') s1)).
           ++ destruct (Bool.eqb _ _); [apply Ipipe; assumption|].
              apply good_ret; [apply keep_refl; exact F | intros o; discriminate].
           ++ intros s1 K. apply Irest; [assumption | exact (k_funs _ _ K)].
    + (* exec_pipeline *)
      intros stk p s Hp F. cbn [exec_pipeline]. destruct p as [neg cs]. cbn [plain_pipeline] in Hp.
      destruct neg; [|apply Icmds; assumption].
      apply (good_seq s (exec_commands n (FCondition :: stk) cs s)
               (fun s1 => Some (Cont, set_status (if N.eqb (status s1) 0 then 1%N else 0%N) s1))).
      * apply Icmds; assumption.
      * intros s1 K. apply good_ret; [apply keep_status; exact (k_funs _ _ K) | intros o; discriminate].
    + (* exec_commands *)
      intros stk cs s Hp F. cbn [exec_commands]. destruct cs as [|c [|c2 cs2]].
      * apply good_ret; [apply keep_status; exact F | intros o; discriminate].
      * cbn [plain_cmds] in Hp. split_and Hp. apply Icmd; assumption.
      * destruct (exec_multi n stk (CCons c (CCons c2 cs2)) s s) as [s1|] eqn:Em; [|apply good_none].
        destruct (Imulti _ _ _ _ _ Em Hp F eq_refl eq_refl) as (A & B & C).
        apply good_ret; [|apply not_abort_errexit].
        split; [exact A | exact C | unfold funs_plain; rewrite B; exact F].
    + (* exec_multi *)
      intros stk cs s0 acc acc' H Hp F Et Ef. cbn [exec_multi] in H. destruct cs as [|c cs'].
      * inversion H; subst. auto.
      * cbn [plain_cmds] in Hp. split_and Hp.
        set (child := child_state (set_trace (trace acc) s0)) in *.
        assert (Fc : funs_plain child) by exact F.
        specialize (Icmd (FSubshell :: stk) c child ltac:(assumption) Fc) as G1.
        destruct (exec_cmd n (FSubshell :: stk) c child) as [[r c1]|]; [|discriminate].
        destruct (G1 _ _ eq_refl) as [[Kt Kc Kf] _].
        destruct (apply_result_keep r c1) as [At Ac].
        assert (Hn : exit_trap (apply_result r c1) = None) by (rewrite At, Kt; reflexivity).
        destruct (run_exit_trap n (FSubshell :: stk) (apply_result r c1)) as [c2|] eqn:Er; [|discriminate].
        rewrite (trap_none _ _ _ _ Er Hn) in H.
        destruct (Imulti _ _ _ _ _ H ltac:(assumption) F eq_refl eq_refl) as (A & B & C).
        split; [exact A|]. split; [exact B|]. rewrite C.
        cbn [absorb_child trace set_trace set_status]. rewrite Ac, Kc. reflexivity.
Qed.
End Once.

(* running the trap action `probe K ST` records exactly one item *)
Lemma probe_action_run k st m stk s r s' :
  lookup_fun NProbe (funs s) = None ->
  exec_list m stk (probe_action k st) s = Some (r, s') ->
  trace s' = (k, status s) :: trace s.
Proof.
  intros Hf H.
  do 5 (destruct m as [|m]; [discriminate|]).
  cbn [exec_list exec_andor exec_pipeline exec_commands probe_action] in H.
  cbn [exec_cmd via_command plain bad_redir] in H. unfold classify in H. cbn [is_special] in H.
  rewrite Hf in H. cbn [is_regular_builtin execute_builtin run_builtin] in H.
  cbn in H.
  destruct (apply_errexit stk _) eqn:E in H; inversion H; subst; reflexivity.
Qed.

Lemma lines_keep k n : forall p e s r s1,
  run_lines n p e s = Some (r, s1) -> forallb (plain_line k) p = true -> funs_plain k s ->
  keep k s s1 /\ not_abort r.
Proof.
  induction p as [|l p IH]; intros e s r s1 H Hp F; cbn [run_lines] in H.
  - inversion H; subst. split; [|intros o; discriminate].
    destruct e; [apply keep_refl; exact F | apply keep_status; exact F].
  - cbn [forallb] in Hp. apply andb_true_iff in Hp as [Hl Hp].
    destruct l as [l|].
    + destruct (once_holds k n) as (_ & _ & _ & _ & _ & _ & _ & Ilist & _).
      specialize (Ilist [] l s Hl F).
      destruct (exec_list n [] l s) as [[rl sl]|]; [|discriminate].
      destruct (Ilist _ _ eq_refl) as [K A].
      destruct rl.
      * destruct (IH _ _ _ _ H Hp (k_funs _ _ _ K)) as [K' A'].
        split; [eapply keep_trans; eauto | exact A'].
      * inversion H; subst. auto.
    + inversion H; subst. split; [apply keep_refl; exact F | intros o; discriminate].
Qed.

Definition trap_set_state (k st : N) : state :=
  set_status 0 (set_exit_trap (Some (probe_action k st)) init_state).

Lemma trap_line_run k st n r s' :
  exec_list n [] (trap_clist k st) init_state = Some (r, s') ->
  r = Cont /\ s' = trap_set_state k st.
Proof.
  intros H.
  assert (E : exec_list 8 [] (trap_clist k st) init_state
              = Some (Cont, trap_set_state k st)) by reflexivity.
  destruct (Nat.le_ge_cases n 8) as [L|L].
  - pose proof (exec_list_mono _ _ _ _ _ _ L H) as X. rewrite E in X. inversion X; auto.
  - pose proof (exec_list_mono _ _ _ _ _ _ L E) as X. rewrite H in X. inversion X; auto.
Qed.

Lemma count_key_rev k t : count_key k (rev t) = count_key k t.
Proof.
  unfold count_key. induction t as [|x t IH]; [reflexivity|].
  cbn [rev]. rewrite filter_app, app_length, IH. cbn [filter].
  destruct (N.eqb (fst x) k); cbn [length]; lia.
Qed.

Lemma exit_trap_once_lemma k st p n o :
  forallb (plain_line k) p = true -> model_run n (trap_line k st :: p) = Some o ->
  count_key k (fst o) = 1.
Proof.
  intros Hp H. unfold model_run in H.
  change (run_lines n (trap_line k st :: p) false init_state)
    with (match exec_list n [] (trap_clist k st) init_state with
          | None => None
          | Some (Brk dv, s1) => Some (Brk dv, s1)
          | Some (Cont, s1) => run_lines n p true s1
          end) in H.
  destruct (exec_list n [] _ init_state) as [[r0 s0]|] eqn:E0; [|discriminate].
  destruct (trap_line_run k st n _ _ E0) as [-> ->].
  destruct (run_lines n p true (trap_set_state k st)) as [[r s1]|] eqn:El; [|discriminate].
  assert (F0 : funs_plain k (trap_set_state k st)) by (split; [intros nm b E; discriminate | reflexivity]).
  destruct (lines_keep k n _ _ _ _ _ El Hp F0) as [[Kt Kc Kf] A].
  destruct (apply_result_keep r s1) as [At Ac].
  set (s2 := apply_result r s1) in *.
  assert (Ht : exit_trap s2 = Some (probe_action k st)) by (rewrite At, Kt; reflexivity).
  assert (Hc : count_key k (trace s2) = 0) by (rewrite Ac, Kc; reflexivity).
  assert (Hf : lookup_fun NProbe (funs s2) = None).
  { unfold s2. destruct r as [|dv]; [exact (proj2 Kf)|]. cbn.
    destruct (divert_exit_status dv); exact (proj2 Kf). }
  assert (Hrun : exists s3, run_exit_trap n [] s2 = Some s3 /\ o = observe s3).
  { destruct r as [|[c|c|x|x|x|x]];
      try (destruct (run_exit_trap n [] s2) as [s3|]; [|discriminate];
           inversion H; subst o; eexists; split; reflexivity).
    exfalso. eapply A. reflexivity. }
  destruct Hrun as (s3 & Et & ->).
  destruct n as [|n]; [discriminate|]. cbn [run_exit_trap] in Et. rewrite Ht in Et.
  destruct (exec_list n [FTrap] (probe_action k st) s2) as [[ra sa]|] eqn:Ea; [|discriminate].
  pose proof (probe_action_run k st _ _ _ _ _ Hf Ea) as Htr.
  assert (Htrace : trace s3 = trace sa).
  { destruct ra as [|[c|c|x|[v|]|x|x]]; inversion Et; subst s3;
      try reflexivity; try (destruct x; reflexivity). }
  unfold observe. cbn [fst]. rewrite count_key_rev, Htrace, Htr.
  unfold count_key in *. cbn [filter fst]. rewrite N.eqb_refl. cbn [length]. rewrite Hc. reflexivity.
Qed.
