(* C08 — lemmas. *)
From Yv Require Import Common.Base C08.Model C08.Spec.

Lemma lookup_update_other {A} (k k' : N) (f : A -> A) (l : list (N * A)) :
  k <> k' -> lookup k (update k' f l) = lookup k l.
Proof.
  intros Hne. induction l as [|[q v] l IH]; cbn; [reflexivity|].
  destruct (N.eqb q k') eqn:E1; cbn.
  - apply N.eqb_eq in E1. subst q.
    destruct (N.eqb k' k) eqn:E2; [apply N.eqb_eq in E2; congruence | reflexivity].
  - destruct (N.eqb q k); [reflexivity | exact IH].
Qed.

Lemma lookup_update_same {A} (k : N) (f : A -> A) (l : list (N * A)) :
  lookup k (update k f l) = option_map f (lookup k l).
Proof.
  induction l as [|[q v] l IH]; cbn; [reflexivity|].
  destruct (N.eqb q k) eqn:E; cbn; rewrite E; [reflexivity | exact IH].
Qed.

Lemma frame_calls (p : N) (calls : list (N * syscall)) :
  forall s, Forall (fun pc => fst pc <> p) calls ->
            lookup p (fold_left do_call calls s) = lookup p s.
Proof.
  induction calls as [|[q c] calls IH]; intros s H; cbn; [reflexivity|].
  inversion H as [|x l Hq Hrest]; subst. cbn in Hq.
  rewrite IH by exact Hrest. unfold do_call; cbn.
  apply lookup_update_other. congruence.
Qed.

Lemma lookup_app_none {A} (k : N) (l1 l2 : list (N * A)) :
  lookup k l1 = None -> lookup k (l1 ++ l2) = lookup k l2.
Proof.
  induction l1 as [|[q v] l1 IH]; cbn; [reflexivity|].
  destruct (N.eqb q k); [discriminate | exact IH].
Qed.

Lemma lookup_app_some {A} (k : N) (l1 l2 : list (N * A)) v :
  lookup k l1 = Some v -> lookup k (l1 ++ l2) = Some v.
Proof.
  induction l1 as [|[q w] l1 IH]; cbn; [discriminate|].
  destruct (N.eqb q k); [trivial | exact IH].
Qed.

Lemma fork_copy parent child s pr :
  lookup parent s = Some pr -> lookup child s = None ->
  lookup child (fork parent child s) = Some pr /\ lookup parent (fork parent child s) = Some pr.
Proof.
  intros Hp Hc. unfold fork. rewrite Hp. split.
  - rewrite lookup_app_none by exact Hc. cbn. rewrite N.eqb_refl. reflexivity.
  - apply lookup_app_some. exact Hp.
Qed.

Lemma fork_other parent child s q :
  q <> child -> lookup q (fork parent child s) = lookup q s.
Proof.
  intros Hne. unfold fork. destruct (lookup parent s) as [pr|]; [|reflexivity].
  destruct (lookup q s) as [v|] eqn:E.
  - apply lookup_app_some. exact E.
  - rewrite lookup_app_none by exact E. cbn.
    destruct (N.eqb child q) eqn:E2; [apply N.eqb_eq in E2; congruence | reflexivity].
Qed.

(* a subshell and everything that runs inside it: a fork followed by any number
   of system calls issued by processes other than the parent *)
Lemma subshell_frame parent child s pr calls :
  lookup parent s = Some pr -> lookup child s = None -> parent <> child ->
  Forall (fun pc => fst pc <> parent) calls ->
  lookup parent (fold_left do_call calls (fork parent child s)) = Some pr.
Proof.
  intros Hp Hc Hne Hcalls. rewrite frame_calls by exact Hcalls.
  rewrite fork_other by exact Hne. exact Hp.
Qed.

Lemma enter_trap_never_command k t : t_action (enter_trap k t) <> ACommand.
Proof.
  unfold enter_trap.
  destruct (match k with KAsync => _ | _ => false end); cbn; [discriminate|].
  destruct (t_action t) eqn:E; cbn; congruence.
Qed.

Lemma enter_trap_ignored_stays k t :
  t_action t = AIgnore -> t_action (enter_trap k t) = AIgnore.
Proof.
  intros H. unfold enter_trap.
  destruct (match k with KAsync => _ | _ => false end); cbn; [reflexivity|].
  rewrite H. reflexivity.
Qed.

Lemma enter_trap_default_stays k t :
  k <> KAsync -> t_action t = ADefault -> enter_trap k t = t.
Proof.
  intros Hk H. unfold enter_trap. destruct k; try congruence; rewrite H; reflexivity.
Qed.

Lemma enter_trap_command_reset k t :
  k <> KAsync -> t_action t = ACommand ->
  t_action (enter_trap k t) = ADefault /\ t_disp (enter_trap k t) = 0%N.
Proof.
  intros Hk H. unfold enter_trap. destruct k; try congruence; rewrite H; split; reflexivity.
Qed.

Lemma enter_view_copies k p :
  s_vars (enter_view k p) = s_vars p /\ s_pos (enter_view k p) = s_pos p /\
  s_funs (enter_view k p) = s_funs p /\ s_aliases (enter_view k p) = s_aliases p /\
  s_opts (enter_view k p) = s_opts p /\ s_cwd (enter_view k p) = s_cwd p /\
  s_umask (enter_view k p) = s_umask p.
Proof. repeat split. Qed.

Lemma trap_eqb_refl t : trap_eqb t t = true.
Proof.
  unfold trap_eqb. rewrite !(proj2 (str_eqb_eq _ _) eq_refl), N.eqb_refl.
  destruct (t_action t); reflexivity.
Qed.

Lemma fd_eqb_refl e : fd_eqb e e = true.
Proof. unfold fd_eqb. rewrite !N.eqb_refl, Bool.eqb_reflx. reflexivity. Qed.

Lemma list_eqb_refl {A} (eqb : A -> A -> bool) :
  (forall x, eqb x x = true) -> forall l, list_eqb eqb l l = true.
Proof. intros H l; induction l as [|x l IH]; cbn; [reflexivity | rewrite H, IH; reflexivity]. Qed.

Lemma snap_eqb_refl s : snap_eqb s s = true.
Proof.
  unfold snap_eqb, snap_diff.
  rewrite !(list_eqb_refl str_eqb) by (intros; apply str_eqb_eq; reflexivity).
  rewrite (proj2 (str_eqb_eq _ _) eq_refl), N.eqb_refl.
  rewrite (list_eqb_refl trap_eqb) by apply trap_eqb_refl.
  rewrite (list_eqb_refl fd_eqb) by apply fd_eqb_refl. reflexivity.
Qed.

Lemma user_fds_idem k l : user_fds k (user_fds k l) = user_fds k l.
Proof.
  unfold user_fds. induction l as [|e l IH]; cbn; [reflexivity|].
  destruct ((N.ltb (fst e) 10 || negb (snd (snd e))) && negb (rewired k (fst e))) eqn:E; cbn;
    [rewrite E, IH|]; auto.
Qed.

(* the oracle accepts the model's own entry view: it demands no more than
   [enter_view] gives *)
Lemma entry_ok_model k p : entry_ok k p (enter_view k p) = true.
Proof.
  unfold entry_ok. cbn [s_vars s_pos s_funs s_aliases s_opts s_cwd s_umask s_traps s_fds enter_view].
  rewrite user_fds_idem. apply snap_eqb_refl.
Qed.

Lemma no_leak_refl s : no_leak s s = true.
Proof. apply snap_eqb_refl. Qed.
