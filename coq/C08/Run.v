(* C08 — evaluated on every case of the correspondence check. *)
From Yv Require Export Common.Base C08.Model C08.Spec.

(* kind, parent before, child at entry, child at the end of the body, parent after *)
Definition case := (kind * snap * snap * snap * snap)%type.

Definition run_case (c : case) : verdict :=
  match c with
  | (k, before, entry, child_end, after) =>
      match snap_diff before after with
      | d :: _ => (10 + d)%N                      (* leak into the parent: component d *)
      | [] =>
          if negb (entry_ok k before entry) then
            match snap_diff (enter_view k before)
                    (mkSnap (s_vars entry) (s_pos entry) (s_funs entry) (s_aliases entry)
                            (s_opts entry) (s_cwd entry) (s_umask entry) (s_traps entry)
                            (user_fds k (s_fds entry))) with
            | d :: _ => (30 + d)%N                (* entry view differs: component d *)
            | [] => 39%N                          (* unreachable *)
            end
          else if snap_eqb entry child_end then 99%N   (* the mutators had no effect: vacuous case *)
          else 0%N
      end
  end.

Definition run_cases := run_cases_with run_case.
