(* C08 — evaluated on every case of the correspondence check. *)
From Yv Require Export Common.Base C08.Model C08.Spec C08.Fds C08.FdSpec C08.EnvModel.

(* Two kinds of cases.

   CSnap: kind, parent before, child at entry, child at the end of the body,
          parent after (whole-state snapshots).

   CFd:   descriptor-table trace of one construct run on the real shell:
          construct (0 = pipeline of [n] commands, 1 = command substitution),
          soft limit on descriptors, the stage whose fork was made to fail,
          the parent's table before, the parent's table at every successful
          fork (= the initial table of that child), every child's table after
          its rewiring (None = that child did not get that far), the parent's
          table after, "the construct ran to completion", "the data written by
          the first command arrived at the end and every reader saw EOF". *)
Inductive case :=
| CSnap (c : kind * snap * snap * snap * snap)
| CFd (construct : N) (n : nat) (lim : option N) (forkfail : option nat) (t0 : fdt)
      (forks : list fdt) (entries : list (option fdt)) (after : fdt)
      (completed : bool) (flow_ok : bool)
(* CEnv: the part of the entry view outside the snapshot (jobs, $!, frames),
   observed in the parent before the subshell and in the child at entry *)
| CEnv (k : kind) (before entry : xview).

Definition run_snap (c : kind * snap * snap * snap * snap) : verdict :=
  match c with
  | (k, before, entry, child_end, after) =>
      match snap_diff before after with
      | d :: _ => (10 + d)%N                      (* leak into the parent: component d *)
      | [] =>
          if negb (entry_ok k before entry) then
            match snap_diff (enter_view k before)
                    (mkSnap (s_vars entry) (s_pos entry) (s_funs entry) (s_aliases entry)
                            (s_opts entry) (s_cwd entry) (s_umask entry) (s_traps entry)
                            (user_fds k (s_fds entry))) with
            | d :: _ => (30 + d)%N                (* entry view differs: component d *)
            | [] => 39%N                          (* unreachable *)
            end
          else if snap_eqb entry child_end then 99%N   (* the mutators had no effect: vacuous case *)
          else 0%N
      end
  end.

Definition faults_of (n : nat) (forkfail : option nat) : list (pfault * bool) :=
  map (fun i => (NoFault, match forkfail with Some k => Nat.eqb i k | None => false end)) (seq 0 n).

Fixpoint keep_present {A B} (mask : list (option A)) (l : list B) : list B :=
  match mask, l with
  | Some _ :: mask', x :: l' => x :: keep_present mask' l'
  | None :: mask', _ :: l' => keep_present mask' l'
  | _, _ => []
  end.

Fixpoint somes {A} (l : list (option A)) : list A :=
  match l with
  | [] => []
  | Some x :: l' => x :: somes l'
  | None :: l' => somes l'
  end.

Definition model_run (construct : N) (n : nat) (lim : option N) (forkfail : option nat) (t0 : fdt)
  : list (fdt * pset) * ending * pst :=
  if N.eqb construct 0 then pipeline lim (faults_of n forkfail) n t0 (fresh_ofd t0)
  else cmdsubst lim NoFault (match forkfail with Some _ => true | None => false end) t0 (fresh_ofd t0).

Definition model_child (construct : N) (lim : option N) (c : fdt * pset) : fdt :=
  cres_tab (if N.eqb construct 0 then move_to_stdin_stdout lim (fst c) (snd c)
            else cmdsubst_child lim (fst c) (snd c)).

Definition run_fd (construct : N) (n : nat) (lim : option N) (forkfail : option nat) (t0 : fdt)
    (forks : list fdt) (entries : list (option fdt)) (after : fdt)
    (completed flow_ok : bool) : verdict :=
  if (Nat.eqb n 0 || negb (N.leb construct 1) || negb (sorted_fds t0))%bool then 99%N
  else
  (* ORACLE, on what the real shell did *)
  if negb (tab_same t0 after) then 40%N
  else if negb (forallb (fork_table_ok construct t0) forks) then 42%N
  else if negb (entries_ok construct n t0 entries) then 41%N
  else if completed && negb flow_ok then 43%N
  else
  (* MODEL against the implementation *)
  let '(children, e, st) := model_run construct n lim forkfail t0 in
  let single := (N.eqb construct 0 && Nat.eqb n 1)%bool in     (* one command: no fork at all *)
  let m_forks := if single then [] else map fst children in
  let m_entries := map (model_child construct lim) children in
  if negb (Bool.eqb completed (N.eqb (ending_code e) 0)) then 1%N
  else if negb (Nat.eqb (length forks) (length m_forks)) then 1%N
  else if negb (Nat.eqb (length entries) (length m_entries)) then 1%N
  else
    let real := forks ++ somes entries ++ [after] in
    let model := m_forks ++ keep_present entries m_entries ++ [tab st] in
    if tabs_eqb (canon_tabs t0 [] real) (canon_tabs t0 [] model) then 0%N else 1%N.

Definition empty_snap : snap := mkSnap [] [] [] [] [] [] 0 [] [].

Definition run_env (k : kind) (before entry : xview) : verdict :=
  if negb (xentry_jobs_ok before entry) then 50%N
  else if negb (xentry_last_ok before entry) then 51%N
  else if negb (xentry_stack_ok before entry) then 52%N
  else if xview_eqb (xview_of (enter_subshell (env_of_xview empty_snap before) k false)) entry
       then 0%N else 1%N.

Definition run_case (c : case) : verdict :=
  match c with
  | CEnv k before entry => run_env k before entry
  | CSnap c => run_snap c
  | CFd construct n lim forkfail t0 forks entries after completed flow_ok =>
      run_fd construct n lim forkfail t0 forks entries after completed flow_ok
  end.

Definition run_cases := run_cases_with run_case.
