(* C08 — the Env-level entry view as a function, and the two-process frame
   property.

   Mirrors yash-env/src/subshell/config.rs `Config::start` (child prologue:
   `push_frame(Frame::Subshell)`, `jobs.disown_all()`,
   `traps.enter_subshell(ignore_sigint_sigquit, ..)` where
   ignore_sigint_sigquit = config flag && no job control), yash-env/src/job.rs
   `JobList::disown_all` (every job stays in the list, marked not owned; the
   last asynchronous process identifier `$!` is untouched), yash-env/src/lib.rs
   `Env::clone_with_system` (everything else is copied).  The descriptor
   rewiring of the individual constructs is Fds.v's business: `Config::start`
   itself touches no descriptor (without job control). *)
From Yv Require Import Common.Base C08.Model C08.Spec.

Inductive frame := FLoop | FSubshell | FCondition | FBuiltin | FDotScript | FTrap | FInitFile.

Definition frame_code (f : frame) : N :=
  match f with
  | FLoop => 0 | FSubshell => 1 | FCondition => 2 | FBuiltin => 3
  | FDotScript => 4 | FTrap => 5 | FInitFile => 6
  end%N.

Definition frame_of_code (c : N) : frame :=
  match c with
  | 0 => FLoop | 1 => FSubshell | 2 => FCondition | 3 => FBuiltin
  | 4 => FDotScript | 5 => FTrap | _ => FInitFile
  end%N.

Record job := mkJob { j_pid : N; j_owned : bool }.

Record env := mkEnv {
  e_snap : snap;            (* variables, positional parameters, functions, aliases, options,
                               cwd, umask, traps, descriptors *)
  e_jobs : list job;
  e_last_async : N;         (* $! ; 0 = none *)
  e_stack : list frame;
  e_exit : N                (* $? *)
}.

(* which rule the traps follow: an asynchronous list under job control does
   not ignore SIGINT/SIGQUIT *)
Definition trap_kind (k : kind) (jobctl : bool) : kind :=
  match k with KAsync => if jobctl then KParen else KAsync | _ => k end.

Definition disown (j : job) : job := mkJob (j_pid j) false.

Definition enter_subshell (e : env) (k : kind) (jobctl : bool) : env :=
  let s := e_snap e in
  mkEnv (mkSnap (s_vars s) (s_pos s) (s_funs s) (s_aliases s) (s_opts s) (s_cwd s) (s_umask s)
                (map (enter_trap (trap_kind k jobctl)) (s_traps s)) (s_fds s))
        (map disown (e_jobs e))
        (e_last_async e)
        (e_stack e ++ [FSubshell])
        (e_exit e).

(* ---- mutators a subshell body may run ---------------------------------------- *)

Inductive mutator :=
| MAssign (entry : str)                      (* variable with value and attributes *)
| MSetPositional (ps : list str)
| MFunDef (f : str)
| MAlias (a : str)
| MOption (o : str) (on : bool)
| MCd (d : str)
| MUmask (m : N)
| MTrap (cond : str) (a : action) (cmd : str) (disp : N)
| MRedir (fd ofd : N)                        (* exec fd>file *)
| MCloseFd (fd : N)                          (* exec fd>&- *)
| MExit (status : N).

Definition set_trap (cond : str) (a : action) (cmd : str) (disp : N) (t : trap) : trap :=
  if str_eqb (t_cond t) cond then mkTrap cond a cmd disp else t.

Definition with_snap (e : env) (s : snap) : env :=
  mkEnv s (e_jobs e) (e_last_async e) (e_stack e) (e_exit e).

Definition apply_mut (e : env) (m : mutator) : env :=
  let s := e_snap e in
  match m with
  | MAssign x => with_snap e (mkSnap (x :: s_vars s) (s_pos s) (s_funs s) (s_aliases s) (s_opts s) (s_cwd s) (s_umask s) (s_traps s) (s_fds s))
  | MSetPositional ps => with_snap e (mkSnap (s_vars s) ps (s_funs s) (s_aliases s) (s_opts s) (s_cwd s) (s_umask s) (s_traps s) (s_fds s))
  | MFunDef f => with_snap e (mkSnap (s_vars s) (s_pos s) (f :: s_funs s) (s_aliases s) (s_opts s) (s_cwd s) (s_umask s) (s_traps s) (s_fds s))
  | MAlias a => with_snap e (mkSnap (s_vars s) (s_pos s) (s_funs s) (a :: s_aliases s) (s_opts s) (s_cwd s) (s_umask s) (s_traps s) (s_fds s))
  | MOption o on =>
      let rest := filter (fun x => negb (str_eqb x o)) (s_opts s) in
      with_snap e (mkSnap (s_vars s) (s_pos s) (s_funs s) (s_aliases s) (if on then o :: rest else rest) (s_cwd s) (s_umask s) (s_traps s) (s_fds s))
  | MCd d => with_snap e (mkSnap (s_vars s) (s_pos s) (s_funs s) (s_aliases s) (s_opts s) d (s_umask s) (s_traps s) (s_fds s))
  | MUmask m => with_snap e (mkSnap (s_vars s) (s_pos s) (s_funs s) (s_aliases s) (s_opts s) (s_cwd s) m (s_traps s) (s_fds s))
  | MTrap c a cmd d => with_snap e (mkSnap (s_vars s) (s_pos s) (s_funs s) (s_aliases s) (s_opts s) (s_cwd s) (s_umask s) (map (set_trap c a cmd d) (s_traps s)) (s_fds s))
  | MRedir fd ofd => with_snap e (mkSnap (s_vars s) (s_pos s) (s_funs s) (s_aliases s) (s_opts s) (s_cwd s) (s_umask s) (s_traps s) (set_key fd (ofd, false) (s_fds s)))
  | MCloseFd fd => with_snap e (mkSnap (s_vars s) (s_pos s) (s_funs s) (s_aliases s) (s_opts s) (s_cwd s) (s_umask s) (s_traps s) (remove_key fd (s_fds s)))
  | MExit n => mkEnv s (e_jobs e) (e_last_async e) (e_stack e) n
  end.

Definition run_muts (e : env) (ms : list mutator) : env := fold_left apply_mut ms e.

(* ---- a system of a parent and the subshells below it --------------------------- *)

(* a process tree: the shell, and the subshells it has started (each with the
   body it still has to run) *)
Inductive ptree := PNode (e : env) (children : list ptree).

Definition root (t : ptree) : env := match t with PNode e _ => e end.

(* events of the system: the process at [path] (list of child indices from the
   root) runs a mutator, or starts a subshell *)
Inductive event :=
| EMut (path : list nat) (m : mutator)
| ESpawn (path : list nat) (k : kind) (jobctl : bool).

Fixpoint update_nth {A} (n : nat) (f : A -> A) (l : list A) : list A :=
  match l, n with
  | [], _ => []
  | x :: l', O => f x :: l'
  | x :: l', S n' => x :: update_nth n' f l'
  end.

Fixpoint at_path (path : list nat) (f : ptree -> ptree) (t : ptree) : ptree :=
  match path with
  | [] => f t
  | i :: rest => match t with PNode e cs => PNode e (update_nth i (at_path rest f) cs) end
  end.

Definition step (t : ptree) (ev : event) : ptree :=
  match ev with
  | EMut path m => at_path path (fun n => match n with PNode e cs => PNode (apply_mut e m) cs end) t
  | ESpawn path k jc =>
      at_path path (fun n => match n with PNode e cs => PNode e (cs ++ [PNode (enter_subshell e k jc) []]) end) t
  end.

Definition ev_path (ev : event) : list nat :=
  match ev with EMut p _ => p | ESpawn p _ _ => p end.

(* ---- what is observed on the real shell beyond the snapshot --------------------- *)

(* jobs (pid, owned), $!, frames (codes) without the frame of the `snap`
   built-in that takes the snapshot *)
Definition xview := (list (N * bool) * N * list N)%type.

Definition xview_of (e : env) : xview :=
  (map (fun j => (j_pid j, j_owned j)) (e_jobs e), e_last_async e, map frame_code (e_stack e)).

Definition env_of_xview (s : snap) (x : xview) : env :=
  match x with
  | (jobs, last, frames) =>
      mkEnv s (map (fun j => mkJob (fst j) (snd j)) jobs) last (map frame_of_code frames) 0
  end.

Definition job_eqb (a b : N * bool) : bool := N.eqb (fst a) (fst b) && Bool.eqb (snd a) (snd b).

(* ORACLE for the part of the entry view outside the snapshot: every job of the
   parent is still listed but not owned; $! is kept; exactly one Subshell frame
   was pushed *)
Definition xentry_jobs_ok (before entry : xview) : bool :=
  list_eqb N.eqb (map fst (fst (fst before))) (map fst (fst (fst entry)))
  && forallb (fun j => negb (snd j)) (fst (fst entry)).

Definition xentry_last_ok (before entry : xview) : bool :=
  N.eqb (snd (fst before)) (snd (fst entry)).

Definition xentry_stack_ok (before entry : xview) : bool :=
  list_eqb N.eqb (snd entry) (snd before ++ [1%N]).

Definition xview_eqb (a b : xview) : bool :=
  list_eqb job_eqb (fst (fst a)) (fst (fst b)) && N.eqb (snd (fst a)) (snd (fst b))
  && list_eqb N.eqb (snd a) (snd b).
