(* C08 — specification and oracle. *)
From Yv Require Import Common.Base C08.Model.

Definition trap_eqb (a b : trap) : bool :=
  str_eqb (t_cond a) (t_cond b) && action_eqb (t_action a) (t_action b)
  && str_eqb (t_cmd a) (t_cmd b) && N.eqb (t_disp a) (t_disp b).

Definition fd_eqb (a b : N * (N * bool)) : bool :=
  N.eqb (fst a) (fst b) && N.eqb (fst (snd a)) (fst (snd b)) && Bool.eqb (snd (snd a)) (snd (snd b)).

(* clause-wise comparison of two snapshots; the list of differing components *)
Definition snap_diff (a b : snap) : list N :=
  (if list_eqb str_eqb (s_vars a) (s_vars b) then [] else [0%N]) ++
  (if list_eqb str_eqb (s_pos a) (s_pos b) then [] else [1%N]) ++
  (if list_eqb str_eqb (s_funs a) (s_funs b) then [] else [2%N]) ++
  (if list_eqb str_eqb (s_aliases a) (s_aliases b) then [] else [3%N]) ++
  (if list_eqb str_eqb (s_opts a) (s_opts b) then [] else [4%N]) ++
  (if str_eqb (s_cwd a) (s_cwd b) then [] else [5%N]) ++
  (if N.eqb (s_umask a) (s_umask b) then [] else [6%N]) ++
  (if list_eqb trap_eqb (s_traps a) (s_traps b) then [] else [7%N]) ++
  (if list_eqb fd_eqb (s_fds a) (s_fds b) then [] else [8%N]).

Definition snap_eqb (a b : snap) : bool :=
  match snap_diff a b with [] => true | _ => false end.

(* The property, clause 1: nothing done in the subshell leaks into the parent.
   [before]/[after] are the parent's snapshots around the subshell. *)
Definition no_leak (before after : snap) : bool := snap_eqb before after.

(* Clause 2: the subshell starts from a copy of the parent's state, except for
   the trap reset.  Descriptors: the user's descriptors (below 10, or above
   without close-on-exec) that the kind does not rewire are inherited
   unchanged, and the child holds no other such descriptor. *)
Definition entry_ok (k : kind) (before entry : snap) : bool :=
  snap_eqb (enter_view k before)
           (mkSnap (s_vars entry) (s_pos entry) (s_funs entry) (s_aliases entry) (s_opts entry)
                   (s_cwd entry) (s_umask entry) (s_traps entry) (user_fds k (s_fds entry))).
