(* C08 — property theorems only. *)
From Yv Require Import Common.Base C08.Model C08.Spec C08.Proofs.

(* A system call issued by any process changes no field of another process's
   record: after any sequence of calls, none issued by [p], [p]'s descriptors,
   working directory, umask, dispositions, mask and limits are what they were. *)
Theorem syscall_frame : forall (p : N) (calls : list (N * syscall)) (s : sys),
  Forall (fun pc => fst pc <> p) calls ->
  lookup p (fold_left do_call calls s) = lookup p s.
Proof. exact frame_calls. Qed.

(* fork: the child starts from a copy of the parent's record; the parent keeps its own *)
Theorem fork_child_is_copy : forall parent child s pr,
  lookup parent s = Some pr -> lookup child s = None ->
  lookup child (fork parent child s) = Some pr /\ lookup parent (fork parent child s) = Some pr.
Proof. exact fork_copy. Qed.

(* whatever runs in the subshell (calls by the child or any other process but
   the parent), the parent's process record is unchanged *)
Theorem subshell_kernel_isolation : forall parent child s pr calls,
  lookup parent s = Some pr -> lookup child s = None -> parent <> child ->
  Forall (fun pc => fst pc <> parent) calls ->
  lookup parent (fold_left do_call calls (fork parent child s)) = Some pr.
Proof. exact subshell_frame. Qed.

(* on entry no trap has a command action; ignored stays ignored; with the
   exception of INT/QUIT in asynchronous lists, default stays default and a
   command trap becomes the default action with the default disposition *)
Theorem entry_no_command_traps : forall k t, t_action (enter_trap k t) <> ACommand.
Proof. exact enter_trap_never_command. Qed.

Theorem entry_ignored_stays_ignored : forall k t,
  t_action t = AIgnore -> t_action (enter_trap k t) = AIgnore.
Proof. exact enter_trap_ignored_stays. Qed.

Theorem entry_command_reset_to_default : forall k t,
  k <> KAsync -> t_action t = ACommand ->
  t_action (enter_trap k t) = ADefault /\ t_disp (enter_trap k t) = 0%N.
Proof. exact enter_trap_command_reset. Qed.

Theorem entry_copies_state : forall k p,
  s_vars (enter_view k p) = s_vars p /\ s_pos (enter_view k p) = s_pos p /\
  s_funs (enter_view k p) = s_funs p /\ s_aliases (enter_view k p) = s_aliases p /\
  s_opts (enter_view k p) = s_opts p /\ s_cwd (enter_view k p) = s_cwd p /\
  s_umask (enter_view k p) = s_umask p.
Proof. exact enter_view_copies. Qed.

(* oracle soundness: the run-time oracle accepts exactly-copied states *)
Theorem oracle_accepts_model_entry : forall k p, entry_ok k p (enter_view k p) = true.
Proof. exact entry_ok_model. Qed.

Theorem oracle_accepts_unchanged_parent : forall s, no_leak s s = true.
Proof. exact no_leak_refl. Qed.
