(* C08 — property theorems only. *)
From Yv Require Import Common.Base C08.Model C08.Spec C08.Proofs C08.Fds C08.FdProofs C08.FdChild C08.EnvModel C08.EnvProofs.

(* A system call issued by any process changes no field of another process's
   record: after any sequence of calls, none issued by [p], [p]'s descriptors,
   working directory, umask, dispositions, mask and limits are what they were. *)
Theorem syscall_frame : forall (p : N) (calls : list (N * syscall)) (s : sys),
  Forall (fun pc => fst pc <> p) calls ->
  lookup p (fold_left do_call calls s) = lookup p s.
Proof. exact frame_calls. Qed.

(* fork: the child starts from a copy of the parent's record; the parent keeps its own *)
Theorem fork_child_is_copy : forall parent child s pr,
  lookup parent s = Some pr -> lookup child s = None ->
  lookup child (fork parent child s) = Some pr /\ lookup parent (fork parent child s) = Some pr.
Proof. exact fork_copy. Qed.

(* whatever runs in the subshell (calls by the child or any other process but
   the parent), the parent's process record is unchanged *)
Theorem subshell_kernel_isolation : forall parent child s pr calls,
  lookup parent s = Some pr -> lookup child s = None -> parent <> child ->
  Forall (fun pc => fst pc <> parent) calls ->
  lookup parent (fold_left do_call calls (fork parent child s)) = Some pr.
Proof. exact subshell_frame. Qed.

(* on entry no trap has a command action; ignored stays ignored; with the
   exception of INT/QUIT in asynchronous lists, default stays default and a
   command trap becomes the default action with the default disposition *)
Theorem entry_no_command_traps : forall k t, t_action (enter_trap k t) <> ACommand.
Proof. exact enter_trap_never_command. Qed.

Theorem entry_ignored_stays_ignored : forall k t,
  t_action t = AIgnore -> t_action (enter_trap k t) = AIgnore.
Proof. exact enter_trap_ignored_stays. Qed.

Theorem entry_command_reset_to_default : forall k t,
  k <> KAsync -> t_action t = ACommand ->
  t_action (enter_trap k t) = ADefault /\ t_disp (enter_trap k t) = 0%N.
Proof. exact enter_trap_command_reset. Qed.

Theorem entry_copies_state : forall k p,
  s_vars (enter_view k p) = s_vars p /\ s_pos (enter_view k p) = s_pos p /\
  s_funs (enter_view k p) = s_funs p /\ s_aliases (enter_view k p) = s_aliases p /\
  s_opts (enter_view k p) = s_opts p /\ s_cwd (enter_view k p) = s_cwd p /\
  s_umask (enter_view k p) = s_umask p.
Proof. exact enter_view_copies. Qed.

(* oracle soundness: the run-time oracle accepts exactly-copied states *)
Theorem oracle_accepts_model_entry : forall k p, entry_ok k p (enter_view k p) = true.
Proof. exact entry_ok_model. Qed.

Theorem oracle_accepts_unchanged_parent : forall s, no_leak s s = true.
Proof. exact no_leak_refl. Qed.

(* process.rs min_unused_fd as modelled (fuel = number of open descriptors): the fuel never
   runs out — the result is free, at or above the minimum, and every descriptor below it is open *)
Theorem min_unused_spec : forall (from : N) (t : fdt), lookup (min_unused from t) t = None /\ (from <= min_unused from t)%N /\ (forall j, (from <= j)%N -> (j < min_unused from t)%N -> has j t = true).
Proof. intros from t. split; [apply min_unused_is_free|]. split; [apply min_unused_is_ge|]. apply min_unused_is_least. Qed.

(* N-command pipeline, parent side: for every number of stages, every descriptor limit, every
   schedule of pipe()/fork failures and every initial table, the parent's table after the
   pipeline (completed or abandoned) is the table before it: nothing leaked, nothing closed *)
Theorem pipeline_parent_table_restored : forall (lim : option N) (faults : list (pfault * bool)) (n : nat) (t0 : fdt) (o0 : N) acc e st, pipeline lim faults n t0 o0 = (acc, e, st) -> forall fd, lookup fd (tab st) = lookup fd t0.
Proof. intros lim faults n t0 o0 acc e st H. exact (proj1 (pipeline_restores _ _ _ _ _ _ _ _ H)). Qed.

(* every descriptor a system call of the pipeline opened or closed in the parent was free in
   the original table, hence at or above its first free slot: the user's descriptors are never touched *)
Theorem pipeline_touches_only_free_descriptors : forall (lim : option N) (faults : list (pfault * bool)) (n : nat) (t0 : fdt) (o0 : N) acc e st, pipeline lim faults n t0 o0 = (acc, e, st) -> Forall (fun fd => lookup fd t0 = None /\ (min_unused 0 t0 <= fd)%N) (tlog st).
Proof. intros lim faults n t0 o0 acc e st H. exact (proj2 (pipeline_restores _ _ _ _ _ _ _ _ H)). Qed.

(* every child the parent started (its initial table = the parent's table at the fork):
   move_to_stdin_stdout neither fails nor hits an assertion, and leaves the ORIGINAL table of the
   parent with descriptor 0 = the previous reader and descriptor 1 = the next writer *)
Theorem pipeline_child_entry_table : forall (lim : option N) (faults : list (pfault * bool)) (n : nat) (t0 : fdt) (o0 : N) acc e st, pipeline lim faults n t0 o0 = (acc, e, st) -> Forall (fun c => exists t', move_to_stdin_stdout lim (fst c) (snd c) = COk t' /\ forall fd, lookup fd t' = child_view t0 (fst c) (snd c) fd) acc.
Proof. intros lim faults n t0 o0 acc e st H. exact (pipeline_children_ok _ _ _ _ _ _ _ _ H). Qed.

(* ... so no descriptor other than 0 and 1 refers to an open file description created by the
   pipeline: no other pipe end stays open in a child, every reader sees EOF *)
Theorem pipeline_child_no_other_pipe_end : forall (lim : option N) (faults : list (pfault * bool)) (n : nat) (t0 : fdt) (o0 : N) acc e st, (forall fd o c, lookup fd t0 = Some (o, c) -> (o < o0)%N) -> pipeline lim faults n t0 o0 = (acc, e, st) -> Forall (fun ch => forall t', move_to_stdin_stdout lim (fst ch) (snd ch) = COk t' -> forall fd o c, lookup fd t' = Some (o, c) -> (o0 <= o)%N -> fd = 0%N \/ fd = 1%N) acc.
Proof. intros lim faults n t0 o0 acc e st Hold H. exact (pipeline_no_other_end _ _ _ _ _ _ _ _ Hold H). Qed.

(* which stage gets which rewiring: child i (from 0) has a previous reader iff it is not the
   first and a next pipe iff it is not the last; a completed pipeline started all n stages *)
Theorem pipeline_stage_rewiring : forall (lim : option N) (faults : list (pfault * bool)) (n : nat) (t0 : fdt) (o0 : N) acc e st, pipeline lim faults n t0 o0 = (acc, e, st) -> (forall i c, nth_error acc i = Some c -> is_some (rp (snd c)) = negb (Nat.eqb i 0) /\ is_some (nx (snd c)) = negb (Nat.eqb (S i) n)) /\ (e = Completed -> length acc = n).
Proof. intros lim faults n t0 o0 acc e st H. exact (pipeline_shape _ _ _ _ _ _ _ _ H). Qed.

(* command substitution (pipe, fork, the parent closes the writer, reads, closes the reader),
   with pipe() or the fork failing: parent restored, only free descriptors touched, the child
   sees the original table with descriptor 1 = the writer *)
Theorem cmdsubst_descriptor_discipline : forall (lim : option N) (pf : pfault) (ff : bool) (t0 : fdt) (o0 : N) acc e st, cmdsubst lim pf ff t0 o0 = (acc, e, st) -> (forall fd, lookup fd (tab st) = lookup fd t0) /\ Forall (fun fd => lookup fd t0 = None /\ (min_unused 0 t0 <= fd)%N) (tlog st) /\ Forall (fun c => exists t', cmdsubst_child lim (fst c) (snd c) = COk t' /\ forall fd, lookup fd t' = child_view t0 (fst c) (snd c) fd) acc.
Proof. intros lim pf ff t0 o0 acc e st H. destruct (cmdsubst_restores _ _ _ _ _ _ _ _ H) as (A & B & _). split; [exact A|]. split; [exact B|]. exact (cmdsubst_children_ok _ _ _ _ _ _ _ _ H). Qed.

(* Env-level entry view (Config::start child prologue), nested: whatever an outer subshell set
   (any mutators, traps included), entering an inner subshell resets again — no command trap, no
   owned job; the job list still names the original jobs, $! is kept, two Subshell frames *)
Theorem nested_subshell_entry_resets_again : forall (p : env) (k1 : kind) (jc1 : bool) (ms : list mutator) (k2 : kind) (jc2 : bool), let inner := enter_subshell (run_muts (enter_subshell p k1 jc1) ms) k2 jc2 in Forall (fun t => t_action t <> ACommand) (s_traps (e_snap inner)) /\ Forall (fun j => j_owned j = false) (e_jobs inner) /\ map j_pid (e_jobs inner) = map j_pid (e_jobs p) /\ e_last_async inner = e_last_async p /\ e_stack inner = e_stack p ++ [FSubshell; FSubshell].
Proof. exact nested_entry_resets. Qed.

(* entering twice gives the traps of entering once *)
Theorem subshell_entry_traps_idempotent : forall (e : env) (k : kind) (jc : bool), s_traps (e_snap (enter_subshell (enter_subshell e k jc) k jc)) = s_traps (e_snap (enter_subshell e k jc)).
Proof. exact entry_traps_idempotent. Qed.

(* everything the property does not list as reset is copied unchanged *)
Theorem subshell_entry_copies_everything_else : forall (e : env) (k : kind) (jc : bool), let c := enter_subshell e k jc in s_vars (e_snap c) = s_vars (e_snap e) /\ s_pos (e_snap c) = s_pos (e_snap e) /\ s_funs (e_snap c) = s_funs (e_snap e) /\ s_aliases (e_snap c) = s_aliases (e_snap e) /\ s_opts (e_snap c) = s_opts (e_snap e) /\ s_cwd (e_snap c) = s_cwd (e_snap e) /\ s_umask (e_snap c) = s_umask (e_snap e) /\ s_fds (e_snap c) = s_fds (e_snap e) /\ e_last_async c = e_last_async e /\ e_exit c = e_exit e /\ map j_pid (e_jobs c) = map j_pid (e_jobs e) /\ s_traps (e_snap c) = map (enter_trap (trap_kind k jc)) (s_traps (e_snap e)).
Proof. exact entry_copies_env. Qed.

(* frame property over a tree of processes: any sequence of mutators (assignment, positional
   parameters, function, alias, option, cd, umask, trap, redirection, close, exit) and further
   subshell starts by processes below the root leaves the root's environment what it was *)
Theorem process_tree_frame : forall (evs : list event) (t : ptree), Forall (fun ev => ev_path ev <> []) evs -> root (fold_left step evs t) = root t.
Proof. exact tree_frame. Qed.

(* the two-process instance, with non-vacuity: the child did run all the mutators *)
Theorem two_process_parent_untouched : forall (p : env) (k : kind) (jc : bool) (ms : list mutator), root (fold_left step (map (EMut [0%nat]) ms) (step (PNode p []) (ESpawn [] k jc))) = p /\ fold_left step (map (EMut [0%nat]) ms) (step (PNode p []) (ESpawn [] k jc)) = PNode p [PNode (run_muts (enter_subshell p k jc) ms) []].
Proof. intros p k jc ms. split; [apply two_process_frame | apply two_process_child_runs]. Qed.

(* oracle soundness for jobs / $! / frames *)
Theorem oracle_accepts_model_entry_jobs_frames : forall (e : env) (k : kind) (jc : bool), xentry_jobs_ok (xview_of e) (xview_of (enter_subshell e k jc)) = true /\ xentry_last_ok (xview_of e) (xview_of (enter_subshell e k jc)) = true /\ xentry_stack_ok (xview_of e) (xview_of (enter_subshell e k jc)) = true.
Proof. exact xentry_oracle_accepts_model. Qed.
