(* C08 — the child's side: PipeSet::move_to_stdin_stdout and the command
   substitution's subshell_body never fail on a table the parent hands over,
   and leave exactly the rewired stdin/stdout on top of the original table. *)
From Yv Require Import Common.Base C08.Model C08.Fds C08.FdProofs.

Local Arguments set_key : simpl never.
Local Arguments remove_key : simpl never.
Local Arguments lookup : simpl never.
Local Arguments min_unused : simpl never.

(* The table a child must see: descriptor 0 is the previous reader (if any),
   descriptor 1 the next writer (if any), everything else the ORIGINAL table
   of the parent — in particular no other pipe end. *)
Definition child_view (t0 t : fdt) (ps : pset) (fd : N) : option (N * bool) :=
  if N.eqb fd 0 then match rp ps with Some p => lookup p t | None => lookup 0 t0 end
  else if N.eqb fd 1 then match nx ps with Some (_, w) => lookup w t | None => lookup 1 t0 end
  else lookup fd t0.

Lemma below_mono lim a b : (a <= b)%N -> below lim b = true -> below lim a = true.
Proof.
  unfold below. destruct lim as [l|]; [|auto]. intros H1 H2.
  apply N.ltb_lt in H2. apply N.ltb_lt. lia.
Qed.

Lemma below_two lim a b : a <> b -> below lim a = true -> below lim b = true -> below lim 1 = true.
Proof.
  unfold below. destruct lim as [l|]; [|auto]. intros H0 H1 H2.
  apply N.ltb_lt in H1, H2. apply N.ltb_lt. lia.
Qed.

Ltac lk_step :=
  match goal with
  | |- context [lookup ?a (set_key ?b ?v ?l)] =>
      let E := fresh "E" in
      destruct (N.eq_dec a b) as [E|E];
      [ rewrite E; rewrite lookup_set_same | rewrite (lookup_set_other a b v l E) ]
  | |- context [lookup ?a (remove_key ?b ?l)] =>
      let E := fresh "E" in
      destruct (N.eq_dec a b) as [E|E];
      [ rewrite E; rewrite lookup_remove_same | rewrite (lookup_remove_other a b l E) ]
  end.

Lemma move_stdin_spec lim t fd o :
  lookup fd t = Some (o, false) -> below lim fd = true ->
  exists t', move_stdin lim t (Some fd) = COk t' /\
    forall x, lookup x t' =
      if N.eqb x 0 then Some (o, false) else if N.eqb x fd then None else lookup x t.
Proof.
  intros Hl Hb. unfold move_stdin.
  destruct (N.eqb_spec fd 0) as [->|Hne].
  - exists t. split; [reflexivity|]. intros x.
    destruct (N.eqb_spec x 0) as [->|Hx]; [exact Hl | reflexivity].
  - unfold cdup2. rewrite Hl. destruct (N.eqb_spec fd 0) as [|_]; [contradiction|].
    rewrite (below_mono lim 0 fd (N.le_0_l _) Hb).
    eexists. split; [reflexivity|]. intros x.
    destruct (N.eqb_spec x 0) as [->|Hx].
    + rewrite lookup_remove_other by congruence. apply lookup_set_same.
    + destruct (N.eqb_spec x fd) as [->|Hxf].
      * apply lookup_remove_same.
      * rewrite lookup_remove_other by exact Hxf. apply lookup_set_other. exact Hx.
Qed.

Ltac fin Hout :=
  first [ reflexivity | congruence | (symmetry; assumption)
        | (apply Hout; congruence) | (symmetry; apply Hout; congruence) ].

Lemma eqb_ne a b : a <> b -> N.eqb a b = false.
Proof. intros H. apply N.eqb_neq. exact H. Qed.

Lemma mtss_spec t0 lim st ps :
  Inv t0 st (ps_fds ps) -> PsOk lim st ps ->
  exists t', move_to_stdin_stdout lim (tab st) ps = COk t' /\
             forall x, lookup x t' = child_view t0 (tab st) ps x.
Proof.
  intros (Ha & Hb & _) (Hnd & Hall). set (t := tab st) in *.
  unfold move_to_stdin_stdout, child_view.
  destruct ps as [[p|] [[r w]|]]; cbn [rp nx ps_fds app opt_is] in *.
  - (* previous reader and next pipe *)
    apply NoDup_cons_iff in Hnd as [Hp Hnd']. apply NoDup_cons_iff in Hnd' as [Hr _]. cbn [In] in Hp, Hr.
    assert (Hpr : p <> r) by intuition congruence. assert (Hpw : p <> w) by intuition congruence. assert (Hrw : r <> w) by intuition congruence.
    pose proof (Forall_inv Hall) as ([op Hpt] & Hbp).
    pose proof (Forall_inv (Forall_inv_tail Hall)) as ([or Hrt] & Hbr).
    pose proof (Forall_inv (Forall_inv_tail (Forall_inv_tail Hall))) as ([ow Hwt] & Hbw).
    assert (Hout : forall x, x <> p -> x <> r -> x <> w -> lookup x t = lookup x t0)
      by (intros x H1 H2 H3; apply Ha; cbn [In]; intuition congruence).
    assert (Hp0 : lookup p t0 = None) by (apply Hb; cbn [In]; auto).
    assert (Hr0 : lookup r t0 = None) by (apply Hb; cbn [In]; auto).
    assert (Hw0 : lookup w t0 = None) by (apply Hb; cbn [In]; auto).
    rewrite (eqb_ne r w Hrw), (eqb_ne p r Hpr), (eqb_ne p w Hpw). cbn [orb].
    destruct (N.eqb_spec w 1) as [Hw1|Hw1].
    + (* the writer already is stdout *)
      subst w.
      destruct (move_stdin_spec lim (remove_key r t) p op) as (t' & Hm & Hspec);
        [rewrite lookup_remove_other by exact Hpr; exact Hpt | exact Hbp |].
      exists t'. split; [exact Hm|]. intros x. rewrite Hspec.
      destruct (N.eqb_spec x 0) as [->|Hx0]; [fin Hout|].
      destruct (N.eqb_spec x p) as [->|Hxp].
      * rewrite (eqb_ne p 1 Hpw). fin Hout.
      * destruct (N.eqb_spec x 1) as [->|Hx1]; repeat lk_step; fin Hout.
    + destruct (N.eqb_spec p 1) as [Hp1|Hp1].
      * (* the previous reader sits on stdout: it is moved out of the way first *)
        subst p. unfold cdup.
        rewrite (lookup_remove_other 1 r t Hpr), Hpt.
        set (t1 := remove_key r t) in *.
        set (d := min_unused 0 t1) in *.
        pose proof (min_unused_is_free 0 t1) as Hd. fold d in Hd.
        assert (Hr1 : lookup r t1 = None) by apply lookup_remove_same.
        assert (Hdr : (d <= r)%N) by (apply free_ge_first_free; exact Hr1).
        rewrite (below_mono lim d r Hdr Hbr).
        assert (Hw1t : lookup w t1 = Some (ow, false))
          by (unfold t1; rewrite lookup_remove_other by congruence; exact Hwt).
        assert (H11t : lookup 1 t1 = Some (op, false))
          by (unfold t1; rewrite lookup_remove_other by congruence; exact Hpt).
        assert (Hdw : d <> w) by (intros E; rewrite E in Hd; congruence).
        assert (Hd1 : d <> 1%N) by (intros E; rewrite E in Hd; congruence).
        unfold cdup2. rewrite (lookup_set_other w d _ t1 (not_eq_sym Hdw)), Hw1t.
        rewrite (eqb_ne w 1 Hw1), (below_two lim r w Hrw Hbr Hbw).
        destruct (move_stdin_spec lim
                    (remove_key w (set_key 1 (ow, false) (set_key d (op, false) t1))) d op)
          as (t' & Hm & Hspec).
        { rewrite lookup_remove_other by exact Hdw. rewrite lookup_set_other by exact Hd1.
          apply lookup_set_same. }
        { exact (below_mono lim d r Hdr Hbr). }
        exists t'. split; [exact Hm|]. intros x. rewrite Hspec.
        destruct (N.eqb_spec x 0) as [->|Hx0]; [fin Hout|].
        destruct (N.eqb_spec x d) as [->|Hxd].
        -- rewrite (eqb_ne d 1 Hd1).
           destruct (N.eq_dec d r) as [->|Hdr']; [fin Hout|].
           unfold t1 in Hd. rewrite lookup_remove_other in Hd by exact Hdr'.
           rewrite <- Hd. fin Hout.
        -- destruct (N.eqb_spec x 1) as [->|Hx1]; unfold t1; repeat lk_step; fin Hout.
      * unfold cdup2.
        rewrite (lookup_remove_other w r t (not_eq_sym Hrw)), Hwt.
        rewrite (eqb_ne w 1 Hw1), (below_two lim r w Hrw Hbr Hbw).
        destruct (move_stdin_spec lim
                    (remove_key w (set_key 1 (ow, false) (remove_key r t))) p op)
          as (t' & Hm & Hspec).
        { rewrite lookup_remove_other by exact Hpw. rewrite lookup_set_other by exact Hp1.
          rewrite lookup_remove_other by exact Hpr. exact Hpt. }
        { exact Hbp. }
        exists t'. split; [exact Hm|]. intros x. rewrite Hspec.
        destruct (N.eqb_spec x 0) as [->|Hx0]; [fin Hout|].
        destruct (N.eqb_spec x p) as [->|Hxp].
        -- rewrite (eqb_ne p 1 Hp1). fin Hout.
        -- destruct (N.eqb_spec x 1) as [->|Hx1]; repeat lk_step; fin Hout.
  - (* last stage: only the previous reader *)
    pose proof (Forall_inv Hall) as ([op Hpt] & Hbp).
    assert (Hout : forall x, x <> p -> lookup x t = lookup x t0)
      by (intros x H1; apply Ha; cbn [In]; intuition congruence).
    assert (Hp0 : lookup p t0 = None) by (apply Hb; cbn [In]; auto).
    destruct (move_stdin_spec lim t p op Hpt Hbp) as (t' & Hm & Hspec).
    exists t'. split; [exact Hm|]. intros x. rewrite Hspec.
    destruct (N.eqb_spec x 0) as [->|Hx0]; [fin Hout|].
    destruct (N.eqb_spec x p) as [->|Hxp].
    + destruct (N.eqb_spec p 1) as [->|]; fin Hout.
    + destruct (N.eqb_spec x 1) as [->|Hx1]; fin Hout.
  - (* first stage: only the next pipe *)
    apply NoDup_cons_iff in Hnd as [Hr _]. cbn [In] in Hr.
    assert (Hrw : r <> w) by intuition congruence.
    pose proof (Forall_inv Hall) as ([or Hrt] & Hbr).
    pose proof (Forall_inv (Forall_inv_tail Hall)) as ([ow Hwt] & Hbw).
    assert (Hout : forall x, x <> r -> x <> w -> lookup x t = lookup x t0)
      by (intros x H2 H3; apply Ha; cbn [In]; intuition congruence).
    assert (Hr0 : lookup r t0 = None) by (apply Hb; cbn [In]; auto).
    assert (Hw0 : lookup w t0 = None) by (apply Hb; cbn [In]; auto).
    rewrite (eqb_ne r w Hrw). cbn [orb move_stdin].
    destruct (N.eqb_spec w 1) as [Hw1|Hw1].
    + subst w. eexists. split; [reflexivity|]. intros x.
      destruct (N.eqb_spec x 0) as [->|Hx0]; [repeat lk_step; fin Hout|].
      destruct (N.eqb_spec x 1) as [->|Hx1]; repeat lk_step; fin Hout.
    + unfold cdup2.
      rewrite (lookup_remove_other w r t (not_eq_sym Hrw)), Hwt.
      rewrite (eqb_ne w 1 Hw1), (below_two lim r w Hrw Hbr Hbw).
      eexists. split; [reflexivity|]. intros x.
      destruct (N.eqb_spec x 0) as [->|Hx0]; [repeat lk_step; fin Hout|].
      destruct (N.eqb_spec x 1) as [->|Hx1]; repeat lk_step; fin Hout.
  - (* a single command: nothing to rewire *)
    cbn [move_stdin]. exists t. split; [reflexivity|]. intros x.
    assert (Hout : forall x, lookup x t = lookup x t0) by (intros y; apply Ha; intros []).
    destruct (N.eqb x 0) eqn:E0; [apply N.eqb_eq in E0; subst; apply Hout|].
    destruct (N.eqb x 1) eqn:E1; [apply N.eqb_eq in E1; subst; apply Hout|]. apply Hout.
Qed.

(* the command substitution's child does what the first stage of a pipeline does *)
Lemma cmdsubst_child_is_first_stage lim t r w :
  r <> w -> cmdsubst_child lim t (mkPs None (Some (r, w))) =
            move_to_stdin_stdout lim t (mkPs None (Some (r, w))).
Proof.
  intros Hrw. unfold cmdsubst_child, move_to_stdin_stdout. cbn [nx rp opt_is].
  rewrite (eqb_ne r w Hrw). cbn [orb move_stdin].
  destruct (N.eqb w 1); [reflexivity|].
  destruct (cdup2 lim w 1 (remove_key r t)); reflexivity.
Qed.

Definition child_ok_prop (t0 : fdt) (lim : option N) (child : option N -> fdt -> pset -> cres)
    (c : fdt * pset) : Prop :=
  exists t', child lim (fst c) (snd c) = COk t' /\
             forall fd, lookup fd t' = child_view t0 (fst c) (snd c) fd.

Lemma childpre_ok t0 lim c : ChildPre t0 lim c -> child_ok_prop t0 lim move_to_stdin_stdout c.
Proof.
  intros (st & Ht & HI & HP). unfold child_ok_prop. rewrite <- Ht. apply mtss_spec; assumption.
Qed.

Lemma pipeline_children_ok lim faults n t0 o0 acc e st :
  pipeline lim faults n t0 o0 = (acc, e, st) ->
  Forall (child_ok_prop t0 lim move_to_stdin_stdout) acc.
Proof.
  intros Hp. eapply Forall_impl; [|exact (pipeline_children_pre _ _ _ _ _ _ _ _ Hp)].
  intros c. apply childpre_ok.
Qed.

(* no descriptor but 0 and 1 refers to an open file description the parent did
   not hold before the construct: no other pipe end is open in the child *)
Lemma child_view_no_other_end t0 o0 t ps t' :
  (forall fd o c, lookup fd t0 = Some (o, c) -> (o < o0)%N) ->
  (forall fd, lookup fd t' = child_view t0 t ps fd) ->
  forall fd o c, lookup fd t' = Some (o, c) -> (o0 <= o)%N -> fd = 0%N \/ fd = 1%N.
Proof.
  intros Hold Hview fd o c Hl Hge. rewrite Hview in Hl. unfold child_view in Hl.
  destruct (N.eqb_spec fd 0) as [|H0]; [auto|].
  destruct (N.eqb_spec fd 1) as [|H1]; [auto|].
  specialize (Hold _ _ _ Hl). lia.
Qed.

Lemma pipeline_no_other_end lim faults n t0 o0 acc e st :
  (forall fd o c, lookup fd t0 = Some (o, c) -> (o < o0)%N) ->
  pipeline lim faults n t0 o0 = (acc, e, st) ->
  Forall (fun ch => forall t', move_to_stdin_stdout lim (fst ch) (snd ch) = COk t' ->
            forall fd o c, lookup fd t' = Some (o, c) -> (o0 <= o)%N -> fd = 0%N \/ fd = 1%N) acc.
Proof.
  intros Hold Hp. eapply Forall_impl; [|exact (pipeline_children_ok _ _ _ _ _ _ _ _ Hp)].
  intros ch (t1 & Hm & Hview) t' Hm'. rewrite Hm in Hm'. inversion Hm'; subst.
  eapply child_view_no_other_end; eassumption.
Qed.

Lemma cmdsubst_children_ok lim pf ff t0 o0 acc e st :
  cmdsubst lim pf ff t0 o0 = (acc, e, st) ->
  Forall (child_ok_prop t0 lim cmdsubst_child) acc.
Proof.
  intros Hc. destruct (cmdsubst_restores _ _ _ _ _ _ _ _ Hc) as (_ & _ & Hpre).
  unfold cmdsubst in Hc.
  destruct (sys_pipe lim pf (mkPst t0 o0 [])) as [[[r w]|] st1] eqn:Hp.
  - destruct ff; inversion Hc; subst; clear Hc; [constructor|].
    constructor; [|constructor]. apply Forall_inv in Hpre.
    destruct Hpre as (st2 & Ht & HI & HP). cbn [fst snd] in *.
    assert (Hrw : r <> w).
    { destruct HP as (Hnd & _). cbn [ps_fds rp nx app] in Hnd.
      apply NoDup_cons_iff in Hnd as [Hr _]. cbn [In] in Hr. intuition congruence. }
    unfold child_ok_prop. cbn [fst snd]. rewrite (cmdsubst_child_is_first_stage lim _ r w Hrw).
    rewrite <- Ht. apply mtss_spec; assumption.
  - inversion Hc; subst. constructor.
Qed.

(* ---- which stage gets which rewiring ------------------------------------------------ *)

Definition is_some {A} (o : option A) : bool := match o with Some _ => true | None => false end.

Fixpoint shape_from (has_prev : bool) (n : nat) (cs : list (fdt * pset)) : Prop :=
  match cs with
  | [] => True
  | c :: cs' =>
      match n with
      | O => False
      | S m => is_some (rp (snd c)) = has_prev /\
               is_some (nx (snd c)) = negb (Nat.eqb m 0) /\
               shape_from true m cs'
      end
  end.

Lemma stages_shape lim : forall n faults st ps acc acc' e st',
  stages lim faults n st ps acc = (acc', e, st') ->
  exists new, acc' = acc ++ new /\ shape_from (is_some (nx ps)) n new /\
              (e = Completed -> length new = n).
Proof.
  induction n as [|m IH]; intros faults st ps acc acc' e st' Hs; cbn [stages] in Hs.
  - destruct (shift lim NoFault false st ps) as [[ok st1] ps1]. inversion Hs; subst.
    exists []. rewrite app_nil_r. cbn. auto.
  - rewrite shift_unfold in Hs.
    set (hn := match m with O => false | S _ => true end) in *.
    assert (Hhn : hn = negb (Nat.eqb m 0)) by (destruct m; reflexivity).
    destruct hn.
    + destruct (sys_pipe lim (fst (hd (NoFault, false) faults)) (after_close st ps))
        as [[pp|] st3].
      * destruct (snd (hd (NoFault, false) faults)).
        -- inversion Hs; subst. exists []. rewrite app_nil_r. cbn. split; [auto|split; [auto|discriminate]].
        -- apply IH in Hs. destruct Hs as (new & -> & Hsh & Hlen).
           exists ((tab st3, mkPs (kept_reader ps) (Some pp)) :: new).
           rewrite <- app_assoc. split; [reflexivity|]. split.
           ++ cbn [shape_from snd rp nx is_some]. split; [|split].
              ** unfold kept_reader. destruct (nx ps) as [[? ?]|]; reflexivity.
              ** rewrite <- Hhn. reflexivity.
              ** exact Hsh.
           ++ intros He. cbn [length]. f_equal. auto.
      * inversion Hs; subst. exists []. rewrite app_nil_r. cbn. split; [auto|split; [auto|discriminate]].
    + destruct (snd (hd (NoFault, false) faults)).
      * inversion Hs; subst. exists []. rewrite app_nil_r. cbn. split; [auto|split; [auto|discriminate]].
      * apply IH in Hs. destruct Hs as (new & -> & Hsh & Hlen).
        exists ((tab (after_close st ps), mkPs (kept_reader ps) None) :: new).
        rewrite <- app_assoc. split; [reflexivity|]. split.
        -- cbn [shape_from snd rp nx is_some]. split; [|split].
           ++ unfold kept_reader. destruct (nx ps) as [[? ?]|]; reflexivity.
           ++ rewrite <- Hhn. reflexivity.
           ++ assert (m = 0%nat) by (destruct m; [reflexivity|discriminate]). subst m.
              cbn [stages] in *. destruct new; [exact I|].
              cbn [shape_from] in Hsh. contradiction.
        -- intros He. cbn [length]. f_equal. auto.
Qed.

(* child k (counted from 1) of a pipeline of n commands has a previous reader
   iff k > 1 and a next pipe iff k < n *)
Lemma shape_nth hp n cs : shape_from hp n cs ->
  forall i c, nth_error cs i = Some c ->
    is_some (rp (snd c)) = (if Nat.eqb i 0 then hp else true) /\
    is_some (nx (snd c)) = negb (Nat.eqb (S i) n).
Proof.
  revert hp n. induction cs as [|c0 cs IH]; intros hp n Hsh i c Hn.
  - destruct i; discriminate.
  - destruct n as [|m]; [contradiction|]. destruct Hsh as (H1 & H2 & H3).
    destruct i as [|i]; cbn in Hn.
    + injection Hn as <-. split; [exact H1|]. rewrite H2. destruct m; reflexivity.
    + destruct (IH _ _ H3 _ _ Hn) as (Ha & Hb). split.
      * rewrite Ha. destruct i; reflexivity.
      * rewrite Hb. reflexivity.
Qed.

Lemma pipeline_shape lim faults n t0 o0 acc e st :
  pipeline lim faults n t0 o0 = (acc, e, st) ->
  (forall i c, nth_error acc i = Some c ->
     is_some (rp (snd c)) = negb (Nat.eqb i 0) /\ is_some (nx (snd c)) = negb (Nat.eqb (S i) n)) /\
  (e = Completed -> length acc = n).
Proof.
  intros Hp. unfold pipeline in Hp. apply stages_shape in Hp.
  destruct Hp as (new & -> & Hsh & Hlen). cbn [app]. split; [|exact Hlen].
  intros i c Hn. destruct (shape_nth _ _ _ Hsh i c Hn) as (Ha & Hb). split; [|exact Hb].
  rewrite Ha. cbn. destruct i; reflexivity.
Qed.

(* ---- non-vacuity ------------------------------------------------------------------- *)

Definition std_table : fdt := [(0, (1, false)); (1, (2, false)); (2, (3, false))]%N.

(* three stages, no fault: three children, completed *)
Example pipeline_three_runs :
  let '(acc, e, st) := pipeline None [] 3 std_table 10 in
  length acc = 3%nat /\ e = Completed /\ tlog st <> [].
Proof. vm_compute. repeat split; discriminate. Qed.

(* the second pipe cannot be opened (limit 5: the writer does not fit) *)
Example pipeline_second_pipe_fails :
  let '(acc, e, st) := pipeline (Some 5%N) [] 3 std_table 10 in
  length acc = 1%nat /\ e = PipeFailed.
Proof. vm_compute. auto. Qed.

(* the fork of the second stage fails *)
Example pipeline_second_fork_fails :
  let '(acc, e, st) := pipeline None [(NoFault, false); (NoFault, true)] 3 std_table 10 in
  length acc = 1%nat /\ e = ForkFailed.
Proof. vm_compute. auto. Qed.

(* stdout closed in the parent: the previous reader lands on descriptor 1 and
   is moved away by the child (the dup branch of move_to_stdin_stdout) *)
Example dup_branch_reached :
  let t0 := [(0, (1, false)); (2, (3, false))]%N in
  let '(acc, _, _) := pipeline None [] 3 t0 10 in
  match nth_error acc 1 with
  | Some (t, ps) => rp ps = Some 1%N /\ exists t', move_to_stdin_stdout None t ps = COk t'
  | None => False
  end.
Proof. vm_compute. split; [reflexivity | eexists; reflexivity]. Qed.
