(* C08 — proofs about the Env-level entry view and the process-tree frame property. *)
From Yv Require Import Common.Base C08.Model C08.Spec C08.Proofs.
From Yv Require Import C08.EnvModel.

Lemma enter_trap_idem k t : enter_trap k (enter_trap k t) = enter_trap k t.
Proof.
  unfold enter_trap.
  destruct (match k with KAsync => str_eqb (t_cond t) sigint || str_eqb (t_cond t) sigquit | _ => false end) eqn:E.
  - cbn [t_cond t_action]. rewrite E. reflexivity.
  - destruct (t_action t) eqn:Ea; cbn [t_cond t_action t_cmd t_disp]; rewrite ?E, ?Ea; reflexivity.
Qed.

Lemma run_muts_keeps e ms :
  e_jobs (run_muts e ms) = e_jobs e /\ e_last_async (run_muts e ms) = e_last_async e /\
  e_stack (run_muts e ms) = e_stack e.
Proof.
  revert e. induction ms as [|m ms IH]; intros e; cbn; [auto|].
  destruct (IH (apply_mut e m)) as (A & B & C). unfold run_muts in *. rewrite A, B, C.
  destruct m; cbn; auto.
Qed.

Lemma map_disown_owned js : Forall (fun j => j_owned j = false) (map disown js).
Proof. induction js; cbn; constructor; auto. Qed.

Lemma map_disown_pids js : map j_pid (map disown js) = map j_pid js.
Proof. induction js as [|j js IH]; cbn; [reflexivity|]. rewrite IH. reflexivity. Qed.

Lemma entered_no_command k ts : Forall (fun t => t_action t <> ACommand) (map (enter_trap k) ts).
Proof. induction ts; cbn; constructor; auto. apply enter_trap_never_command. Qed.

(* (i) whatever an outer subshell did (any mutators, traps included), entering
   an inner subshell resets again: no command trap, no owned job; $! is still
   the original shell's, two Subshell frames were pushed *)
Lemma nested_entry_resets p k1 jc1 ms k2 jc2 :
  let inner := enter_subshell (run_muts (enter_subshell p k1 jc1) ms) k2 jc2 in
  Forall (fun t => t_action t <> ACommand) (s_traps (e_snap inner)) /\
  Forall (fun j => j_owned j = false) (e_jobs inner) /\
  map j_pid (e_jobs inner) = map j_pid (e_jobs p) /\
  e_last_async inner = e_last_async p /\
  e_stack inner = e_stack p ++ [FSubshell; FSubshell].
Proof.
  cbn zeta. destruct (run_muts_keeps (enter_subshell p k1 jc1) ms) as (A & B & C).
  unfold enter_subshell at 1 3 5 7 9. cbn [e_snap e_jobs e_last_async e_stack s_traps].
  split; [apply entered_no_command|]. split; [apply map_disown_owned|].
  rewrite A, B, C. cbn [enter_subshell e_jobs e_last_async e_stack].
  split; [rewrite !map_disown_pids; reflexivity|]. split; [reflexivity|].
  rewrite <- app_assoc. reflexivity.
Qed.

(* entering twice in a row gives the traps of entering once *)
Lemma entry_traps_idempotent e k jc :
  s_traps (e_snap (enter_subshell (enter_subshell e k jc) k jc)) =
  s_traps (e_snap (enter_subshell e k jc)).
Proof.
  cbn [enter_subshell e_snap s_traps]. rewrite map_map. apply map_ext. intros t. apply enter_trap_idem.
Qed.

(* (ii) everything not listed is copied unchanged *)
Lemma entry_copies_env e k jc :
  let c := enter_subshell e k jc in
  s_vars (e_snap c) = s_vars (e_snap e) /\ s_pos (e_snap c) = s_pos (e_snap e) /\
  s_funs (e_snap c) = s_funs (e_snap e) /\ s_aliases (e_snap c) = s_aliases (e_snap e) /\
  s_opts (e_snap c) = s_opts (e_snap e) /\ s_cwd (e_snap c) = s_cwd (e_snap e) /\
  s_umask (e_snap c) = s_umask (e_snap e) /\ s_fds (e_snap c) = s_fds (e_snap e) /\
  e_last_async c = e_last_async e /\ e_exit c = e_exit e /\
  map j_pid (e_jobs c) = map j_pid (e_jobs e) /\
  s_traps (e_snap c) = map (enter_trap (trap_kind k jc)) (s_traps (e_snap e)).
Proof. cbn. repeat split. apply map_disown_pids. Qed.

(* (iii) frame property: whatever the processes BELOW the root do — any
   sequence of mutators and of further subshell starts, at any depth — the
   root's environment is what it was *)
Lemma step_below_root t ev : ev_path ev <> [] -> root (step t ev) = root t.
Proof.
  intros H. destruct ev as [path m|path k jc]; cbn in *;
    (destruct path as [|i rest]; [congruence|]); destruct t as [e cs]; reflexivity.
Qed.

Lemma tree_frame evs : forall t,
  Forall (fun ev => ev_path ev <> []) evs -> root (fold_left step evs t) = root t.
Proof.
  induction evs as [|ev evs IH]; intros t H; cbn; [reflexivity|].
  inversion H as [|? ? H1 H2]; subst. rewrite IH by exact H2. apply step_below_root. exact H1.
Qed.

(* the two-process instance: the shell starts a subshell of any kind, the
   subshell runs any sequence of mutators *)
Lemma two_process_frame p k jc ms :
  root (fold_left step (map (EMut [0%nat]) ms) (step (PNode p []) (ESpawn [] k jc))) = p.
Proof.
  rewrite tree_frame.
  - reflexivity.
  - apply Forall_forall. intros ev Hin. apply in_map_iff in Hin. destruct Hin as (m & <- & _).
    cbn. discriminate.
Qed.

(* ... and the mutators do reach the child: the frame property is not vacuous *)
Lemma two_process_child_runs p k jc ms :
  fold_left step (map (EMut [0%nat]) ms) (step (PNode p []) (ESpawn [] k jc)) =
  PNode p [PNode (run_muts (enter_subshell p k jc) ms) []].
Proof.
  cbn [step at_path app]. generalize (enter_subshell p k jc) as c.
  induction ms as [|m ms IH]; intros c; cbn; [reflexivity|]. apply IH.
Qed.

(* oracle soundness for the part of the entry view outside the snapshot *)
Lemma list_eqb_N_refl l : list_eqb N.eqb l l = true.
Proof. induction l; cbn; [reflexivity|]. rewrite N.eqb_refl. assumption. Qed.

Lemma xentry_oracle_accepts_model e k jc :
  xentry_jobs_ok (xview_of e) (xview_of (enter_subshell e k jc)) = true /\
  xentry_last_ok (xview_of e) (xview_of (enter_subshell e k jc)) = true /\
  xentry_stack_ok (xview_of e) (xview_of (enter_subshell e k jc)) = true.
Proof.
  unfold xentry_jobs_ok, xentry_last_ok, xentry_stack_ok, xview_of.
  cbn [fst snd enter_subshell e_jobs e_last_async e_stack]. repeat split.
  - apply andb_true_iff. split.
    + rewrite !map_map. cbn. apply list_eqb_N_refl.
    + rewrite map_map. apply forallb_forall. intros x Hin. apply in_map_iff in Hin.
      destruct Hin as (j & <- & _). reflexivity.
  - apply N.eqb_refl.
  - rewrite map_app. cbn. apply list_eqb_N_refl.
Qed.

Example two_process_example :
  let p := mkEnv (mkSnap [] [] [] [] [] [] 18 [mkTrap sigint ACommand [120]%N 2] [])
                 [mkJob 7 true] 7 [] 0 in
  let w := fold_left step [EMut [0%nat] (MUmask 63); EMut [0%nat] (MCd [47]%N)]
                     (step (PNode p []) (ESpawn [] KParen false)) in
  root w = p /\
  match w with
  | PNode _ [PNode c _] => s_umask (e_snap c) = 63%N /\ e_jobs c = [mkJob 7 false]
  | _ => False
  end.
Proof. vm_compute. auto. Qed.
