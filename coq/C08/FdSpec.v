(* C08 — descriptor discipline: the specification in boolean form (ORACLE),
   stated on observed tables only, independently of the model in Fds.v.

   before/after : the parent's table is what it was;
   at a fork    : the parent holds every descriptor it held before, unchanged,
                  plus at most three (pipeline) / exactly two (command
                  substitution) more, which refer to new open file descriptions
                  and are not close-on-exec;
   child entry  : the child's table is the parent's table before the construct
                  except that descriptor 0 and/or 1 refer to a new open file
                  description, every new description being held by exactly one
                  child on exactly one descriptor (no other pipe end is open, so
                  every reader sees EOF when its writer is done). *)
From Yv Require Import Common.Base C08.Model C08.Fds.

Fixpoint sorted_fds (t : fdt) : bool :=
  match t with
  | [] => true
  | e :: t' =>
      match t' with
      | [] => true
      | e' :: _ => N.ltb (fst e) (fst e') && sorted_fds t'
      end
  end.

Definition tab_same (a b : fdt) : bool := list_eqb fd_entry_eqb a b.

Definition entry_opt_eqb (a b : option (N * bool)) : bool :=
  option_eqb (fun x y => N.eqb (fst x) (fst y) && Bool.eqb (snd x) (snd y)) a b.

Definition extras (t0 t : fdt) : fdt := filter (fun e => negb (has (fst e) t0)) t.

Fixpoint distinct (l : list N) : bool :=
  match l with
  | [] => true
  | x :: l' => negb (existsb (N.eqb x) l') && distinct l'
  end.

Definition fork_table_ok (construct : N) (t0 ft : fdt) : bool :=
  forallb (fun e => entry_opt_eqb (lookup (fst e) ft) (Some (snd e))) t0
  && (let ex := extras t0 ft in
      forallb (fun e => negb (ofd_known t0 (fst (snd e))) && negb (snd (snd e))) ex
      && distinct (map (fun e => fst (snd e)) ex)
      && (if N.eqb construct 0 then Nat.leb 1 (length ex) && Nat.leb (length ex) 3
          else Nat.eqb (length ex) 2)).

(* new open file descriptions a child's table refers to *)
Definition new_ofds (t0 e : fdt) : list N :=
  map (fun x => fst (snd x)) (filter (fun x => negb (ofd_known t0 (fst (snd x)))) e).

Definition rewired_ok (t0 e : fdt) (fd : N) : bool :=
  match lookup fd e with
  | Some (o, c) => negb (ofd_known t0 o) && negb c
  | None => false
  end.

Definition child_ok (t0 e : fdt) (stdin_rewired stdout_rewired : bool) : bool :=
  forallb (fun fd =>
             if (N.eqb fd 0 && stdin_rewired) || (N.eqb fd 1 && stdout_rewired) then true
             else entry_opt_eqb (lookup fd e) (lookup fd t0))
          (map fst t0 ++ map fst e)
  && (if stdin_rewired then rewired_ok t0 e 0 else true)
  && (if stdout_rewired then rewired_ok t0 e 1 else true).

Fixpoint entries_ok_from (construct : N) (n : nat) (t0 : fdt) (k : nat) (entries : list (option fdt)) : bool :=
  match entries with
  | [] => true
  | None :: rest => entries_ok_from construct n t0 (S k) rest
  | Some e :: rest =>
      (if N.eqb construct 0 then child_ok t0 e (Nat.ltb 1 k) (Nat.ltb k n)
       else child_ok t0 e false true)
      && entries_ok_from construct n t0 (S k) rest
  end.

Fixpoint all_new_ofds (t0 : fdt) (entries : list (option fdt)) : list N :=
  match entries with
  | [] => []
  | None :: rest => all_new_ofds t0 rest
  | Some e :: rest => new_ofds t0 e ++ all_new_ofds t0 rest
  end.

Definition entries_ok (construct : N) (n : nat) (t0 : fdt) (entries : list (option fdt)) : bool :=
  entries_ok_from construct n t0 1 entries && distinct (all_new_ofds t0 entries).
