(* C08 — proofs about the descriptor discipline (Fds.v). *)
From Yv Require Import Common.Base C08.Model C08.Fds.

(* ---- association lists ------------------------------------------------------- *)

Lemma lookup_remove_same {A} (k : N) (l : list (N * A)) : lookup k (remove_key k l) = None.
Proof.
  induction l as [|[q v] l IH]; cbn; [reflexivity|].
  destruct (N.eqb q k) eqn:E; [exact IH | cbn; rewrite E; exact IH].
Qed.

Lemma lookup_remove_other {A} (k k' : N) (l : list (N * A)) :
  k <> k' -> lookup k (remove_key k' l) = lookup k l.
Proof.
  intros Hne. induction l as [|[q v] l IH]; cbn; [reflexivity|].
  destruct (N.eqb q k') eqn:E.
  - apply N.eqb_eq in E. subst q.
    destruct (N.eqb k' k) eqn:E2; [apply N.eqb_eq in E2; congruence | exact IH].
  - cbn. destruct (N.eqb q k); [reflexivity | exact IH].
Qed.

Lemma lookup_set_same {A} (k : N) (v : A) (l : list (N * A)) : lookup k (set_key k v l) = Some v.
Proof. unfold set_key; cbn. rewrite N.eqb_refl. reflexivity. Qed.

Lemma lookup_set_other {A} (k k' : N) (v : A) (l : list (N * A)) :
  k <> k' -> lookup k (set_key k' v l) = lookup k l.
Proof.
  intros Hne. unfold set_key; cbn.
  destruct (N.eqb k' k) eqn:E; [apply N.eqb_eq in E; congruence|].
  apply lookup_remove_other. exact Hne.
Qed.

Lemma length_remove_le {A} (k : N) (l : list (N * A)) : (length (remove_key k l) <= length l)%nat.
Proof.
  induction l as [|[q v] l IH]; cbn; [lia|]. destruct (N.eqb q k); cbn; lia.
Qed.

Lemma length_remove_lt (k : N) (t : fdt) :
  has k t = true -> (length (remove_key k t) < length t)%nat.
Proof.
  unfold has. induction t as [|[q v] t IH]; cbn; [discriminate|].
  destruct (N.eqb q k) eqn:E; intros H.
  - pose proof (length_remove_le k t). lia.
  - cbn. specialize (IH H). lia.
Qed.

(* ---- min_unused_fd ------------------------------------------------------------ *)

Lemma min_unused_go_ge fuel : forall from t, (from <= min_unused_go fuel from t)%N.
Proof.
  induction fuel as [|f IH]; intros from t; cbn; [lia|].
  destruct (has from t); [|lia]. specialize (IH (N.succ from) (remove_key from t)). lia.
Qed.

Lemma min_unused_go_free fuel : forall from t,
  (length t <= fuel)%nat -> lookup (min_unused_go fuel from t) t = None.
Proof.
  induction fuel as [|f IH]; intros from t Hlen; cbn.
  - destruct t; [reflexivity | cbn in Hlen; lia].
  - destruct (has from t) eqn:Hh.
    + pose proof (length_remove_lt from t Hh) as Hlt.
      assert (Hle : (length (remove_key from t) <= f)%nat) by lia.
      specialize (IH (N.succ from) _ Hle).
      pose proof (min_unused_go_ge f (N.succ from) (remove_key from t)) as Hge.
      rewrite lookup_remove_other in IH by lia. exact IH.
    + unfold has in Hh. destruct (lookup from t); [discriminate | reflexivity].
Qed.

Lemma min_unused_go_least fuel : forall from t j,
  (from <= j)%N -> (j < min_unused_go fuel from t)%N -> has j t = true.
Proof.
  induction fuel as [|f IH]; intros from t j H1 H2; cbn in H2; [lia|].
  destruct (has from t) eqn:Hh; [|lia].
  destruct (N.eq_dec j from) as [->|Hne]; [exact Hh|].
  assert (H3 : (N.succ from <= j)%N) by lia.
  specialize (IH _ _ _ H3 H2). unfold has in *.
  rewrite lookup_remove_other in IH by exact Hne. exact IH.
Qed.

(* the fuel never runs out: the result is a free descriptor ... *)
Lemma min_unused_is_free from t : lookup (min_unused from t) t = None.
Proof. apply min_unused_go_free. lia. Qed.

(* ... at or above the requested minimum, and every descriptor in between is open *)
Lemma min_unused_is_ge from t : (from <= min_unused from t)%N.
Proof. apply min_unused_go_ge. Qed.

Lemma min_unused_is_least from t j :
  (from <= j)%N -> (j < min_unused from t)%N -> has j t = true.
Proof. apply min_unused_go_least. Qed.

(* a descriptor that is not open is at or above the first free slot *)
Lemma free_ge_first_free t fd : lookup fd t = None -> (min_unused 0 t <= fd)%N.
Proof.
  intros Hf. destruct (N.lt_ge_cases fd (min_unused 0 t)) as [Hlt|Hge]; [|exact Hge].
  pose proof (min_unused_is_least 0 t fd (N.le_0_l _) Hlt) as Hh.
  unfold has in Hh. rewrite Hf in Hh. discriminate.
Qed.

Local Arguments set_key : simpl never.
Local Arguments remove_key : simpl never.
Local Arguments lookup : simpl never.
Local Arguments min_unused : simpl never.

(* ---- the parent-side invariant -------------------------------------------------- *)

(* [live]: the descriptors the construct currently holds.  Outside [live] the
   table is the original one; the live descriptors are free in the original
   table; so is every descriptor a system call has touched so far. *)
Definition Inv (t0 : fdt) (st : pst) (live : list N) : Prop :=
  (forall fd, ~ In fd live -> lookup fd (tab st) = lookup fd t0) /\
  (forall fd, In fd live -> lookup fd t0 = None) /\
  Forall (fun fd => lookup fd t0 = None) (tlog st).

Lemma inv_init t0 o0 : Inv t0 (mkPst t0 o0 []) [].
Proof. repeat split; cbn; auto. intros fd []. Qed.

Lemma inv_close t0 st live live' fd :
  Inv t0 st live -> In fd live ->
  (forall x, In x live' -> In x live) ->
  (forall x, In x live -> x = fd \/ In x live') ->
  Inv t0 (sclose fd st) live'.
Proof.
  intros (Ha & Hb & Hc) Hin Hsub Hcov. repeat split; cbn.
  - intros x Hx. destruct (N.eq_dec x fd) as [->|Hne].
    + rewrite lookup_remove_same. symmetry. apply Hb. exact Hin.
    + rewrite lookup_remove_other by exact Hne. apply Ha. intros Hl.
      destruct (Hcov x Hl) as [->|Hl']; [congruence | exact (Hx Hl')].
  - intros x Hx. apply Hb. apply Hsub. exact Hx.
  - constructor; [apply Hb; exact Hin | exact Hc].
Qed.

Lemma inv_weaken t0 st live live' :
  Inv t0 st live -> (forall x, In x live -> In x live') ->
  (forall x, In x live' -> In x live) -> Inv t0 st live'.
Proof.
  intros (Ha & Hb & Hc) H1 H2. repeat split.
  - intros x Hx. apply Ha. intros Hl. exact (Hx (H1 x Hl)).
  - intros x Hx. apply Hb. exact (H2 x Hx).
  - exact Hc.
Qed.

Lemma inv_free_fresh t0 st live fd :
  Inv t0 st live -> lookup fd (tab st) = None -> lookup fd t0 = None.
Proof.
  intros (Ha & Hb & _) Hf. destruct (in_dec N.eq_dec fd live) as [Hi|Hn].
  - apply Hb. exact Hi.
  - rewrite <- Ha by exact Hn. exact Hf.
Qed.

(* what a pipe() does to the invariant; a failing pipe() changes nothing *)
Lemma inv_pipe t0 lim pf st live res st' :
  Inv t0 st live -> sys_pipe lim pf st = (res, st') ->
  match res with
  | Some (r, w) =>
      Inv t0 st' (r :: w :: live) /\ r <> w /\
      lookup r (tab st) = None /\ lookup w (tab st) = None /\
      lookup r (tab st') = Some (nofd st, false) /\
      lookup w (tab st') = Some (N.succ (nofd st), false) /\
      below lim r = true /\ below lim w = true /\
      (forall fd, fd <> r -> fd <> w -> lookup fd (tab st') = lookup fd (tab st)) /\
      nofd st' = (nofd st + 2)%N
  | None => Inv t0 st' live /\ (forall fd, lookup fd (tab st') = lookup fd (tab st)) /\ nofd st' = nofd st
  end.
Proof.
  intros HI Hp. unfold sys_pipe in Hp.
  destruct pf; try (inversion Hp; subst; destruct HI as (?&?&?); repeat split; auto; fail).
  all: set (r := min_unused 0 (tab st)) in *.
  all: pose proof (min_unused_is_free 0 (tab st)) as Hrf; fold r in Hrf.
  all: destruct (below lim r) eqn:Hbr; cbn [negb] in Hp;
    [| inversion Hp; subst; destruct HI as (?&?&?); repeat split; auto].
  all: set (t1 := set_key r (nofd st, false) (tab st)) in *.
  all: set (w := min_unused 0 t1) in *.
  all: pose proof (min_unused_is_free 0 t1) as Hwf; fold w in Hwf.
  all: assert (Hrw : r <> w)
    by (intros Heq; rewrite <- Heq in Hwf; unfold t1 in Hwf; rewrite lookup_set_same in Hwf; discriminate).
  all: assert (Hwf0 : lookup w (tab st) = None)
    by (unfold t1 in Hwf; rewrite lookup_set_other in Hwf by congruence; exact Hwf).
  all: pose proof (inv_free_fresh _ _ _ _ HI Hrf) as Hr0.
  all: pose proof (inv_free_fresh _ _ _ _ HI Hwf0) as Hw0.
  all: destruct HI as (Ha & Hb & Hc).
  (* NoFault *)
  - destruct (below lim w) eqn:Hbw; cbn in Hp; inversion Hp; subst; clear Hp.
    + repeat split; cbn.
      * intros x Hx. cbn in Hx.
        rewrite lookup_set_other by (intros ->; apply Hx; auto).
        unfold t1. rewrite lookup_set_other by (intros ->; apply Hx; auto).
        apply Ha. intros Hl. apply Hx. auto.
      * intros x [<-|[<-|Hx]]; auto.
      * repeat constructor; auto.
      * exact Hrw.
      * exact Hrf.
      * exact Hwf0.
      * rewrite lookup_set_other by exact Hrw. unfold t1. apply lookup_set_same.
      * apply lookup_set_same.
      * exact Hbr.
      * exact Hbw.
      * intros fd H1 H2. rewrite lookup_set_other by exact H2. unfold t1.
        apply lookup_set_other. exact H1.
    + repeat split; cbn.
      * intros x Hx. destruct (N.eq_dec x r) as [->|Hne].
        -- rewrite lookup_remove_same. rewrite <- Hrf. symmetry.
           rewrite Hrf. symmetry. rewrite <- Hr0. symmetry.
           destruct (in_dec N.eq_dec r live) as [Hi|Hn]; [rewrite Hr0; reflexivity|].
           rewrite Hr0. reflexivity.
        -- rewrite lookup_remove_other by exact Hne. unfold t1.
           rewrite lookup_set_other by exact Hne. apply Ha. exact Hx.
      * exact Hb.
      * repeat constructor; auto.
      * intros fd. destruct (N.eq_dec fd r) as [->|Hne].
        -- rewrite lookup_remove_same. symmetry. exact Hrf.
        -- rewrite lookup_remove_other by exact Hne. unfold t1. apply lookup_set_other. exact Hne.
  (* FailWriter *)
  - rewrite orb_true_r in Hp. inversion Hp; subst; clear Hp.
    repeat split; cbn.
    + intros x Hx. destruct (N.eq_dec x r) as [->|Hne].
      * rewrite lookup_remove_same. symmetry. exact Hr0.
      * rewrite lookup_remove_other by exact Hne. unfold t1.
        rewrite lookup_set_other by exact Hne. apply Ha. exact Hx.
    + exact Hb.
    + repeat constructor; auto.
    + intros fd. destruct (N.eq_dec fd r) as [->|Hne].
      * rewrite lookup_remove_same. symmetry. exact Hrf.
      * rewrite lookup_remove_other by exact Hne. unfold t1. apply lookup_set_other. exact Hne.
Qed.

(* ---- PipeSet::shift -------------------------------------------------------------- *)

(* the descriptors of the PipeSet are distinct, open without close-on-exec, and
   below the limit *)
Definition PsOk (lim : option N) (st : pst) (ps : pset) : Prop :=
  NoDup (ps_fds ps) /\
  Forall (fun fd => (exists o, lookup fd (tab st) = Some (o, false)) /\ below lim fd = true) (ps_fds ps).

Lemma sclose_lookup_other fd x st :
  x <> fd -> lookup x (tab (sclose fd st)) = lookup x (tab st).
Proof. intros H. cbn [sclose tab]. apply lookup_remove_other. exact H. Qed.

Definition optl (o : option N) : list N := match o with Some x => [x] | None => [] end.

Definition after_close (st : pst) (ps : pset) : pst :=
  let st1 := oclose (rp ps) st in
  match nx ps with Some (_, w) => sclose w st1 | None => st1 end.

Definition kept_reader (ps : pset) : option N :=
  match nx ps with Some (r, _) => Some r | None => None end.

Lemma shift_close_phase t0 lim st ps :
  Inv t0 st (ps_fds ps) -> PsOk lim st ps ->
  Inv t0 (after_close st ps) (optl (kept_reader ps)) /\
  PsOk lim (after_close st ps) (mkPs (kept_reader ps) None).
Proof.
  intros HI (Hnd & Hall). unfold after_close, kept_reader.
  destruct ps as [[p|] [[r w]|]]; cbn [rp nx oclose ps_fds app optl] in *.
  - apply NoDup_cons_iff in Hnd as [Hp Hnd']. apply NoDup_cons_iff in Hnd' as [Hr _].
    cbn [In] in Hp, Hr.
    assert (Hpr : r <> p) by (intros ->; apply Hp; auto).
    assert (Hwr : r <> w) by (intros ->; apply Hr; auto).
    split.
    + apply inv_close with (live := [r; w]); cbn [In]; [|auto|intuition|intuition].
      apply inv_close with (live := [p; r; w]); cbn [In]; [exact HI|auto|intuition|intuition].
    + split; [cbn; repeat constructor; cbn; tauto|].
      cbn [ps_fds rp nx app]. constructor; [|constructor].
      apply Forall_inv_tail in Hall. apply Forall_inv in Hall. destruct Hall as ([o Ho] & Hb).
      split; [|exact Hb]. exists o.
      rewrite sclose_lookup_other by exact Hwr. rewrite sclose_lookup_other by exact Hpr. exact Ho.
  - split.
    + apply inv_close with (live := [p]); cbn [In]; [exact HI|auto|intuition|intuition].
    + split; cbn; constructor.
  - apply NoDup_cons_iff in Hnd as [Hr _]. cbn [In] in Hr.
    assert (Hwr : r <> w) by (intros ->; apply Hr; auto).
    split.
    + apply inv_close with (live := [r; w]); cbn [In]; [exact HI|auto|intuition|intuition].
    + split; [cbn; repeat constructor; cbn; tauto|].
      cbn [ps_fds rp nx app]. constructor; [|constructor].
      apply Forall_inv in Hall. destruct Hall as ([o Ho] & Hb).
      split; [|exact Hb]. exists o. rewrite sclose_lookup_other by exact Hwr. exact Ho.
  - split; [exact HI|]. split; cbn; constructor.
Qed.

Lemma shift_unfold lim pf hn st ps :
  shift lim pf hn st ps =
  if hn then
    match sys_pipe lim pf (after_close st ps) with
    | (Some p, st3) => (true, st3, mkPs (kept_reader ps) (Some p))
    | (None, st3) => (false, oclose (kept_reader ps) st3, mkPs None None)
    end
  else (true, after_close st ps, mkPs (kept_reader ps) None).
Proof. unfold shift, after_close, kept_reader. destruct (nx ps) as [[r w]|]; reflexivity. Qed.

Lemma inv_shift t0 lim pf hn st ps ok st' ps' :
  Inv t0 st (ps_fds ps) -> PsOk lim st ps -> shift lim pf hn st ps = (ok, st', ps') ->
  Inv t0 st' (ps_fds ps') /\ PsOk lim st' ps' /\ (ok = false -> ps_fds ps' = []) /\
  (hn = false -> ok = true /\ nx ps' = None).
Proof.
  intros HI HP Hs. rewrite shift_unfold in Hs.
  destruct (shift_close_phase _ _ _ _ HI HP) as (HI2 & HP2).
  set (st2 := after_close st ps) in *. set (k := kept_reader ps) in *.
  destruct hn.
  - destruct (sys_pipe lim pf st2) as [[[r2 w2]|] st3] eqn:Hp;
      pose proof (inv_pipe _ _ _ _ _ _ _ HI2 Hp) as Hpipe; cbn beta iota in Hpipe;
      inversion Hs; subst; clear Hs.
    + destruct Hpipe as (HI3 & Hrw & Hr0 & Hw0 & Hr3 & Hw3 & Hbr & Hbw & Hoth & _).
      destruct HP2 as (_ & Hall2). cbn [ps_fds rp nx app] in Hall2.
      split; [|split; [|split; [discriminate|discriminate]]].
      * eapply inv_weaken; [exact HI3| |]; destruct k; cbn [optl ps_fds rp nx app In]; intuition.
      * destruct k as [kr|]; cbn [optl ps_fds rp nx app] in *.
        -- apply Forall_inv in Hall2. destruct Hall2 as ([o Ho] & Hb).
           assert (kr <> r2) by (intros ->; rewrite Hr0 in Ho; discriminate).
           assert (kr <> w2) by (intros ->; rewrite Hw0 in Ho; discriminate).
           unfold PsOk; cbn [ps_fds rp nx app].
           split; [repeat constructor; cbn [In]; intuition|].
           constructor; [split; [exists o; rewrite Hoth by assumption; exact Ho|exact Hb]|].
           constructor; [split; [eexists; exact Hr3|exact Hbr]|].
           constructor; [split; [eexists; exact Hw3|exact Hbw]|constructor].
        -- unfold PsOk; cbn [ps_fds rp nx app].
           split; [repeat constructor; cbn [In]; intuition|].
           constructor; [split; [eexists; exact Hr3|exact Hbr]|].
           constructor; [split; [eexists; exact Hw3|exact Hbw]|constructor].
    + destruct Hpipe as (HI3 & _ & _).
      split; [|split; [|split; [reflexivity|discriminate]]].
      * destruct k as [kr|]; cbn [oclose ps_fds rp nx app optl] in *; [|exact HI3].
        apply inv_close with (live := [kr]); cbn [In]; [exact HI3|auto|intuition|intuition].
      * split; cbn; constructor.
  - inversion Hs; subst; clear Hs.
    split; [|split; [|split; [discriminate|auto]]].
    + destruct k; exact HI2.
    + exact HP2.
Qed.

Lemma inv_close_all t0 lim st ps :
  Inv t0 st (ps_fds ps) -> PsOk lim st ps -> Inv t0 (close_all st ps) [].
Proof.
  intros HI _. unfold close_all.
  destruct ps as [[p|] [[r w]|]]; cbn [rp nx oclose ps_fds app] in *.
  - apply inv_close with (live := [w]); cbn [In]; [|auto|intuition|intuition].
    apply inv_close with (live := [r; w]); cbn [In]; [|auto|intuition|intuition].
    apply inv_close with (live := [p; r; w]); cbn [In]; [exact HI|auto|intuition|intuition].
  - apply inv_close with (live := [p]); cbn [In]; [exact HI|auto|intuition|intuition].
  - apply inv_close with (live := [w]); cbn [In]; [|auto|intuition|intuition].
    apply inv_close with (live := [r; w]); cbn [In]; [exact HI|auto|intuition|intuition].
  - exact HI.
Qed.

(* ---- the whole pipeline ------------------------------------------------------------ *)

(* what holds of every child the parent started: at the fork the parent's table
   and the PipeSet handed to the child satisfy the invariant *)
Definition ChildPre (t0 : fdt) (lim : option N) (c : fdt * pset) : Prop :=
  exists st, tab st = fst c /\ Inv t0 st (ps_fds (snd c)) /\ PsOk lim st (snd c).

Lemma stages_inv t0 lim : forall n faults st ps acc acc' e st',
  Inv t0 st (ps_fds ps) -> PsOk lim st ps -> (n = 0%nat -> nx ps = None) ->
  Forall (ChildPre t0 lim) acc ->
  stages lim faults n st ps acc = (acc', e, st') ->
  Inv t0 st' [] /\ Forall (ChildPre t0 lim) acc'.
Proof.
  induction n as [|m IH]; intros faults st ps acc acc' e st' HI HP Hn0 Hacc Hs; cbn [stages] in Hs.
  - destruct (shift lim NoFault false st ps) as [[ok st1] ps1] eqn:Hsh.
    inversion Hs; subst; clear Hs.
    destruct (inv_shift _ _ _ _ _ _ _ _ _ HI HP Hsh) as (HI1 & _).
    split; [|exact Hacc].
    rewrite shift_unfold in Hsh. inversion Hsh; subst.
    unfold kept_reader in HI1. rewrite (Hn0 eq_refl) in HI1. exact HI1.
  - destruct (shift lim (fst (hd (NoFault, false) faults))
                    match m with O => false | S _ => true end st ps) as [[ok st1] ps1] eqn:Hsh.
    destruct (inv_shift _ _ _ _ _ _ _ _ _ HI HP Hsh) as (HI1 & HP1 & Hfail & Hlast).
    destruct ok.
    + destruct (snd (hd (NoFault, false) faults)).
      * inversion Hs; subst; clear Hs. split; [|exact Hacc].
        eapply inv_close_all; eassumption.
      * eapply IH; [exact HI1|exact HP1| |
                    |exact Hs].
        -- intros ->. exact (proj2 (Hlast eq_refl)).
        -- apply Forall_app. split; [exact Hacc|]. constructor; [|constructor].
           exists st1. cbn [fst snd]. auto.
    + inversion Hs; subst; clear Hs. split; [|exact Hacc].
      rewrite (Hfail eq_refl) in HI1. exact HI1.
Qed.

Lemma psok_init lim st : PsOk lim st (mkPs None None).
Proof. split; cbn; constructor. Qed.

(* THEOREM A (parent restored, only free descriptors touched) *)
Lemma pipeline_restores lim faults n t0 o0 :
  forall acc e st, pipeline lim faults n t0 o0 = (acc, e, st) ->
  (forall fd, lookup fd (tab st) = lookup fd t0) /\
  Forall (fun fd => lookup fd t0 = None /\ (min_unused 0 t0 <= fd)%N) (tlog st).
Proof.
  intros acc e st Hp. unfold pipeline in Hp.
  destruct (stages_inv t0 lim n faults (mkPst t0 o0 []) (mkPs None None) [] acc e st (inv_init t0 o0) (psok_init lim _)
              (fun _ => eq_refl) (Forall_nil _) Hp) as ((Ha & _ & Hc) & _).
  split.
  - intros fd. apply Ha. intros [].
  - eapply Forall_impl; [|exact Hc]. cbn beta. intros fd Hf. split; [exact Hf|].
    apply free_ge_first_free. exact Hf.
Qed.

Lemma pipeline_children_pre lim faults n t0 o0 :
  forall acc e st, pipeline lim faults n t0 o0 = (acc, e, st) -> Forall (ChildPre t0 lim) acc.
Proof.
  intros acc e st Hp. unfold pipeline in Hp.
  exact (proj2 (stages_inv t0 lim n faults (mkPst t0 o0 []) (mkPs None None) [] acc e st (inv_init t0 o0) (psok_init lim _)
                  (fun _ => eq_refl) (Forall_nil _) Hp)).
Qed.

(* command substitution *)
Lemma cmdsubst_restores lim pf ff t0 o0 :
  forall acc e st, cmdsubst lim pf ff t0 o0 = (acc, e, st) ->
  (forall fd, lookup fd (tab st) = lookup fd t0) /\
  Forall (fun fd => lookup fd t0 = None /\ (min_unused 0 t0 <= fd)%N) (tlog st) /\
  Forall (ChildPre t0 lim) acc.
Proof.
  intros acc e st Hc. unfold cmdsubst in Hc.
  destruct (sys_pipe lim pf (mkPst t0 o0 [])) as [[[r w]|] st1] eqn:Hp;
    pose proof (inv_pipe _ _ _ _ _ _ _ (inv_init t0 o0) Hp) as Hpipe; cbn beta iota in Hpipe.
  - destruct Hpipe as (HI1 & Hrw & Hr0 & Hw0 & Hr1 & Hw1 & Hbr & Hbw & Hoth & _).
    assert (Hfin : forall st2 acc2, Inv t0 st2 [] -> Forall (ChildPre t0 lim) acc2 ->
              (forall fd, lookup fd (tab st2) = lookup fd t0) /\
              Forall (fun fd => lookup fd t0 = None /\ (min_unused 0 t0 <= fd)%N) (tlog st2) /\
              Forall (ChildPre t0 lim) acc2).
    { intros st2 acc2 (Ha & _ & Hc2) Hacc. split; [|split; [|exact Hacc]].
      - intros fd. apply Ha. intros [].
      - eapply Forall_impl; [|exact Hc2]. cbn beta. intros fd Hf. split; [exact Hf|].
        apply free_ge_first_free. exact Hf. }
    destruct ff; inversion Hc; subst; clear Hc; apply Hfin.
    + apply inv_close with (live := [w]); cbn [In]; [|auto|intuition|intuition].
      apply inv_close with (live := [r; w]); cbn [In]; [exact HI1|auto|intuition|intuition].
    + constructor.
    + apply inv_close with (live := [r]); cbn [In]; [|auto|intuition|intuition].
      apply inv_close with (live := [r; w]); cbn [In]; [exact HI1|auto|intuition|intuition].
    + constructor; [|constructor]. exists st1. cbn [fst snd ps_fds rp nx app]. split; [reflexivity|].
      split; [exact HI1|]. unfold PsOk; cbn [ps_fds rp nx app].
      split; [repeat constructor; cbn [In]; intuition|].
      constructor; [split; [eexists; exact Hr1|exact Hbr]|].
      constructor; [split; [eexists; exact Hw1|exact Hbw]|constructor].
  - destruct Hpipe as ((Ha & _ & Hc2) & _ & _). inversion Hc; subst; clear Hc.
    split; [|split; [|constructor]].
    + intros fd. apply Ha. intros [].
    + eapply Forall_impl; [|exact Hc2]. cbn beta. intros fd Hf. split; [exact Hf|].
      apply free_ge_first_free. exact Hf.
Qed.
