(* C08 — the PARENT's descriptor discipline around subshell-creating constructs,
   as a transition system over the descriptor table of the simulated kernel.

   Mirrors
   * yash-env/src/system/virtual.rs  `pipe` (two `open_fd`, the reader is closed
     again when the writer does not fit), `dup`, `dup2`, `close`;
     virtual/process.rs `open_fd_ge` / `min_unused_fd` / `set_fd` (soft limit
     RLIMIT_NOFILE), `fork_from` (the child's table is a copy);
   * yash-semantics/src/command/pipeline.rs `execute_multi_command_pipeline`,
     `PipeSet::shift`, `PipeSet::close_all`, `PipeSet::move_to_stdin_stdout`
     (with the two repairs: the previous reader is closed when the next pipe
     cannot be opened; all pipe ends are closed when a stage cannot be forked);
   * yash-semantics/src/expansion/initial/command_subst.rs `expand`,
     `subshell_body`, `expand_common`.
   The parenthesised subshell and the asynchronous list do no descriptor work
   in the parent (Config::start touches no descriptor without job control);
   the asynchronous child's /dev/null on stdin stays with Model.v's `rewired`.

   Failure injection: [pfault] makes the pipe() of a stage fail at its first or
   second descriptor (beside the natural EMFILE caused by the limit), a boolean
   per stage makes the fork fail. *)
From Yv Require Import Common.Base C08.Model.

Definition fdt := list (N * (N * bool)).   (* fd -> (open file description, cloexec) *)

Definition has (fd : N) (t : fdt) : bool :=
  match lookup fd t with Some _ => true | None => false end.

(* process.rs min_unused_fd: the least descriptor >= from that is not open.
   Fuel = number of open descriptors; each round removes one, so the fuel
   never runs out (theorem min_unused_free). *)
Fixpoint min_unused_go (fuel : nat) (from : N) (t : fdt) : N :=
  match fuel with
  | O => from
  | S f => if has from t then min_unused_go f (N.succ from) (remove_key from t) else from
  end.
Definition min_unused (from : N) (t : fdt) : N := min_unused_go (length t) from t.

(* set_fd: a descriptor at or above the soft limit cannot be assigned *)
Definition below (lim : option N) (fd : N) : bool :=
  match lim with None => true | Some l => N.ltb fd l end.

(* parent-side state: descriptor table, next fresh open-file-description
   identity, log of every descriptor a system call of the construct touched *)
Record pst := mkPst { tab : fdt; nofd : N; tlog : list N }.

Definition sclose (fd : N) (st : pst) : pst :=
  mkPst (remove_key fd (tab st)) (nofd st) (fd :: tlog st).

Definition oclose (o : option N) (st : pst) : pst :=
  match o with Some fd => sclose fd st | None => st end.

Inductive pfault := NoFault | FailReader | FailWriter.

Definition is_fail_writer (p : pfault) : bool :=
  match p with FailWriter => true | _ => false end.

(* VirtualSystem::pipe *)
Definition sys_pipe (lim : option N) (pf : pfault) (st : pst) : option (N * N) * pst :=
  match pf with
  | FailReader => (None, st)
  | _ =>
      let r := min_unused 0 (tab st) in
      if negb (below lim r) then (None, st)
      else
        let t1 := set_key r (nofd st, false) (tab st) in
        let w := min_unused 0 t1 in
        if negb (below lim w) || is_fail_writer pf
        then (None, mkPst (remove_key r t1) (nofd st) (r :: r :: tlog st))
        else (Some (r, w),
              mkPst (set_key w (N.succ (nofd st), false) t1) (nofd st + 2) (w :: r :: tlog st))
  end.

(* pipeline.rs PipeSet *)
Record pset := mkPs { rp : option N; nx : option (N * N) }.

Definition ps_fds (ps : pset) : list N :=
  (match rp ps with Some fd => [fd] | None => [] end) ++
  (match nx ps with Some (r, w) => [r; w] | None => [] end).

(* PipeSet::shift; the boolean is "Ok" *)
Definition shift (lim : option N) (pf : pfault) (has_next : bool) (st : pst) (ps : pset)
  : bool * pst * pset :=
  let st1 := oclose (rp ps) st in
  let st2 := match nx ps with Some (_, w) => sclose w st1 | None => st1 end in
  let rp' := match nx ps with Some (r, _) => Some r | None => None end in
  if has_next then
    match sys_pipe lim pf st2 with
    | (Some p, st3) => (true, st3, mkPs rp' (Some p))
    | (None, st3) => (false, oclose rp' st3, mkPs None None)
    end
  else (true, st2, mkPs rp' None).

(* PipeSet::close_all *)
Definition close_all (st : pst) (ps : pset) : pst :=
  let st1 := oclose (rp ps) st in
  match nx ps with Some (r, w) => sclose w (sclose r st1) | None => st1 end.

Inductive ending := Completed | PipeFailed | ForkFailed.

Definition ending_code (e : ending) : N :=
  match e with Completed => 0 | PipeFailed => 1 | ForkFailed => 2 end%N.

(* execute_multi_command_pipeline: [n] stages still to start; per stage one
   (pipe fault, fork fails) pair; [acc] = for every child started so far the
   parent's table at the moment of the fork (= the child's initial table,
   Process::fork_from) and the PipeSet it was given *)
Fixpoint stages (lim : option N) (faults : list (pfault * bool)) (n : nat) (st : pst) (ps : pset)
    (acc : list (fdt * pset)) : list (fdt * pset) * ending * pst :=
  match n with
  | O => let '(_, st', _) := shift lim NoFault false st ps in (acc, Completed, st')
  | S m =>
      let f := hd (NoFault, false) faults in
      let has_next := match m with O => false | S _ => true end in
      match shift lim (fst f) has_next st ps with
      | (false, st1, _) => (acc, PipeFailed, st1)
      | (true, st1, ps1) =>
          if snd f then (acc, ForkFailed, close_all st1 ps1)
          else stages lim (tl faults) m st1 ps1 (acc ++ [(tab st1, ps1)])
      end
  end.

Definition pipeline (lim : option N) (faults : list (pfault * bool)) (n : nat) (t0 : fdt) (o0 : N) :=
  stages lim faults n (mkPst t0 o0 []) (mkPs None None) [].

(* ---- child side ------------------------------------------------------------ *)

Inductive cres := COk (t : fdt) | CErr | CPanic.

(* VirtualSystem::dup2 *)
Definition cdup2 (lim : option N) (from to : N) (t : fdt) : option fdt :=
  match lookup from t with
  | None => None
  | Some (o, _) =>
      if N.eqb from to then Some t
      else if below lim to then Some (set_key to (o, false) t) else None
  end.

(* VirtualSystem::dup with no flags *)
Definition cdup (lim : option N) (from min : N) (t : fdt) : option (N * fdt) :=
  match lookup from t with
  | None => None
  | Some (o, _) =>
      let fd := min_unused min t in
      if below lim fd then Some (fd, set_key fd (o, false) t) else None
  end.

Definition opt_is (o : option N) (fd : N) : bool :=
  match o with Some x => N.eqb x fd | None => false end.

(* the last step of move_to_stdin_stdout: the previous reader becomes stdin *)
Definition move_stdin (lim : option N) (t : fdt) (rd : option N) : cres :=
  match rd with
  | None => COk t
  | Some fd =>
      if N.eqb fd 0 then COk t
      else match cdup2 lim fd 0 t with
           | Some t1 => COk (remove_key fd t1)
           | None => CErr
           end
  end.

(* PipeSet::move_to_stdin_stdout, run by the child on its copy of the table *)
Definition move_to_stdin_stdout (lim : option N) (t : fdt) (ps : pset) : cres :=
  match nx ps with
  | None => move_stdin lim t (rp ps)
  | Some (r, w) =>
      if N.eqb r w || opt_is (rp ps) r || opt_is (rp ps) w then CPanic   (* assert_ne! *)
      else
        let t1 := remove_key r t in
        if N.eqb w 1 then move_stdin lim t1 (rp ps)
        else
          let moved :=
            if opt_is (rp ps) 1
            then match cdup lim 1 0 t1 with
                 | Some (d, t2) => Some (t2, Some d)
                 | None => None
                 end
            else Some (t1, rp ps) in
          match moved with
          | None => CErr
          | Some (t2, rp2) =>
              match cdup2 lim w 1 t2 with
              | None => CErr
              | Some t3 => move_stdin lim (remove_key w t3) rp2
              end
          end
  end.

(* ---- command substitution --------------------------------------------------- *)

(* expand + expand_common, parent side: the child list has at most one entry
   (table at the fork, reader, writer) *)
Definition cmdsubst (lim : option N) (pf : pfault) (fork_fails : bool) (t0 : fdt) (o0 : N)
  : list (fdt * pset) * ending * pst :=
  match sys_pipe lim pf (mkPst t0 o0 []) with
  | (None, st) => ([], PipeFailed, st)
  | (Some (r, w), st) =>
      if fork_fails then ([], ForkFailed, sclose w (sclose r st))
      else ([(tab st, mkPs None (Some (r, w)))], Completed, sclose r (sclose w st))
  end.

(* subshell_body: close the reader; the writer becomes stdout *)
Definition cmdsubst_child (lim : option N) (t : fdt) (ps : pset) : cres :=
  match nx ps with
  | None => CPanic
  | Some (r, w) =>
      let t1 := remove_key r t in
      if N.eqb w 1 then COk t1
      else match cdup2 lim w 1 t1 with
           | Some t2 => COk (remove_key w t2)
           | None => CErr
           end
  end.

(* ---- comparison with tables observed on the real shell ----------------------- *)

Fixpoint insert_sorted (e : N * (N * bool)) (l : fdt) : fdt :=
  match l with
  | [] => [e]
  | x :: l' => if N.leb (fst e) (fst x) then e :: l else x :: insert_sorted e l'
  end.

Definition sort_fds (t : fdt) : fdt := fold_right insert_sorted [] t.

Definition ofd_known (t0 : fdt) (o : N) : bool :=
  existsb (fun e => N.eqb (fst (snd e)) o) t0.

Fixpoint assoc (k : N) (m : list (N * N)) : option N :=
  match m with
  | [] => None
  | (a, b) :: m' => if N.eqb a k then Some b else assoc k m'
  end.

(* Open file descriptions that the parent did not hold before the construct are
   renamed in order of first occurrence (over all tables, descriptors
   ascending), so that two runs are compared up to the naming of the new
   descriptions. *)
Definition canon_base : N := 1000000.

Fixpoint canon_tab (t0 : fdt) (m : list (N * N)) (t : fdt) : list (N * N) * fdt :=
  match t with
  | [] => (m, [])
  | (fd, (o, c)) :: t' =>
      if ofd_known t0 o then
        let '(m', r) := canon_tab t0 m t' in (m', (fd, (o, c)) :: r)
      else
        match assoc o m with
        | Some o' => let '(m', r) := canon_tab t0 m t' in (m', (fd, (o', c)) :: r)
        | None =>
            let o' := (canon_base + N.of_nat (length m))%N in
            let '(m', r) := canon_tab t0 ((o, o') :: m) t' in (m', (fd, (o', c)) :: r)
        end
  end.

Fixpoint canon_tabs (t0 : fdt) (m : list (N * N)) (ts : list fdt) : list fdt :=
  match ts with
  | [] => []
  | t :: ts' => let '(m', r) := canon_tab t0 m (sort_fds t) in r :: canon_tabs t0 m' ts'
  end.

Definition fd_entry_eqb (a b : N * (N * bool)) : bool :=
  N.eqb (fst a) (fst b) && N.eqb (fst (snd a)) (fst (snd b)) && Bool.eqb (snd (snd a)) (snd (snd b)).

Definition tabs_eqb (a b : list fdt) : bool := list_eqb (list_eqb fd_entry_eqb) a b.

(* a fresh description identity for the model: above everything in the table *)
Definition fresh_ofd (t0 : fdt) : N :=
  N.succ (fold_right (fun e acc => N.max (fst (snd e)) acc) 0%N t0).

Definition cres_tab (c : cres) : fdt :=
  match c with COk t => t | CErr => [(999999, (999999, true))] | CPanic => [(999998, (999998, true))] end%N.
