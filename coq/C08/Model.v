(* C08 — subshell isolation.

   Two layers are modelled.

   1. The process table of the simulated kernel
      (yash-env/src/system/virtual/process.rs `Process`, `fork_from`): a process
      record holds the descriptor table, working directory, umask, signal
      dispositions, signal mask and resource limits; `fork` gives the child a
      copy of the parent's record; every system call the shell issues changes
      only the record of the calling process (open file descriptions and files
      are the shared objects, referred to by identity).

   2. The shell's view on entering a subshell
      (yash-env/src/subshell/config.rs `Config::start`, fork.rs `ForkEnvState`,
      trap.rs `TrapSet::enter_subshell`): the child environment is a copy of the
      parent's, except that traps with a command action are reset to the default
      action while ignored signals stay ignored, and that an asynchronous list
      without job control ignores SIGINT and SIGQUIT. *)
From Yv Require Import Common.Base.

(* ---- 1. kernel process table ---------------------------------------------- *)

Record proc := mkProc {
  p_fds : list (N * (N * bool));     (* fd -> (open file description id, cloexec) *)
  p_cwd : str;
  p_umask : N;
  p_disp : list (N * N);             (* signal -> disposition 0 default 1 ignore 2 catch *)
  p_blocked : list N;
  p_rlimits : list (N * (N * N))     (* resource -> (soft, hard) *)
}.

Definition sys := list (N * proc).   (* pid -> process *)

Fixpoint lookup {A} (k : N) (l : list (N * A)) : option A :=
  match l with
  | [] => None
  | (k', v) :: l => if N.eqb k' k then Some v else lookup k l
  end.

Fixpoint update {A} (k : N) (f : A -> A) (l : list (N * A)) : list (N * A) :=
  match l with
  | [] => []
  | (k', v) :: l => if N.eqb k' k then (k', f v) :: l else (k', v) :: update k f l
  end.

Fixpoint remove_key {A} (k : N) (l : list (N * A)) : list (N * A) :=
  match l with
  | [] => []
  | (k', v) :: l => if N.eqb k' k then remove_key k l else (k', v) :: remove_key k l
  end.

Definition set_key {A} (k : N) (v : A) (l : list (N * A)) : list (N * A) :=
  (k, v) :: remove_key k l.

Inductive syscall :=
| Chdir (d : str)
| Umask (m : N)
| Close (fd : N)
| Dup2 (from to : N)
| OpenAt (fd : N) (ofd : N) (cloexec : bool)   (* a successful open/dup/pipe landing on fd *)
| Sigaction (sig disp : N)
| Sigmask (blocked : list N)
| Setrlimit (res soft hard : N).

Definition apply_call (c : syscall) (p : proc) : proc :=
  match c with
  | Chdir d => mkProc (p_fds p) d (p_umask p) (p_disp p) (p_blocked p) (p_rlimits p)
  | Umask m => mkProc (p_fds p) (p_cwd p) m (p_disp p) (p_blocked p) (p_rlimits p)
  | Close fd => mkProc (remove_key fd (p_fds p)) (p_cwd p) (p_umask p) (p_disp p) (p_blocked p) (p_rlimits p)
  | Dup2 from to =>
      match lookup from (p_fds p) with
      | Some (ofd, _) =>
          mkProc (set_key to (ofd, false) (p_fds p)) (p_cwd p) (p_umask p) (p_disp p) (p_blocked p) (p_rlimits p)
      | None => p
      end
  | OpenAt fd ofd ce =>
      mkProc (set_key fd (ofd, ce) (p_fds p)) (p_cwd p) (p_umask p) (p_disp p) (p_blocked p) (p_rlimits p)
  | Sigaction sg d =>
      mkProc (p_fds p) (p_cwd p) (p_umask p) (set_key sg d (p_disp p)) (p_blocked p) (p_rlimits p)
  | Sigmask b => mkProc (p_fds p) (p_cwd p) (p_umask p) (p_disp p) b (p_rlimits p)
  | Setrlimit r s h =>
      mkProc (p_fds p) (p_cwd p) (p_umask p) (p_disp p) (p_blocked p) (set_key r (s, h) (p_rlimits p))
  end.

(* a system call issued by process [pid] *)
Definition do_call (s : sys) (pc : N * syscall) : sys :=
  update (fst pc) (apply_call (snd pc)) s.

(* Process::fork_from: the child's record is a copy of the parent's *)
Definition fork (parent child : N) (s : sys) : sys :=
  match lookup parent s with
  | Some p => s ++ [(child, p)]
  | None => s
  end.

(* ---- 2. the shell's view on subshell entry ---------------------------------- *)

Inductive action := ADefault | AIgnore | ACommand.

Definition action_eqb (a b : action) : bool :=
  match a, b with
  | ADefault, ADefault | AIgnore, AIgnore | ACommand, ACommand => true
  | _, _ => false
  end.

(* kind of subshell *)
Inductive kind := KParen | KCmdSubst | KPipeFirst | KPipeLast | KAsync | KPipeMiddle.

(* One trap entry of a snapshot: condition name, user action, text of the
   command, disposition installed in the kernel (signals only; 0 for EXIT). *)
Record trap := mkTrap { t_cond : str; t_action : action; t_cmd : str; t_disp : N }.

Record snap := mkSnap {
  s_vars : list str;           (* visible variables with value and attributes, sorted *)
  s_pos : list str;            (* positional parameters *)
  s_funs : list str;           (* functions with printed body, sorted *)
  s_aliases : list str;        (* aliases, sorted *)
  s_opts : list str;           (* options that are on, sorted *)
  s_cwd : str;
  s_umask : N;
  s_traps : list trap;         (* fixed list of conditions, fixed order *)
  s_fds : list (N * (N * bool))  (* fd -> (open file description identity, cloexec), sorted by fd *)
}.

Definition sigint : str := [73; 78; 84]%N.        (* "INT" *)
Definition sigquit : str := [81; 85; 73; 84]%N.   (* "QUIT" *)
Definition cond_exit : str := [69; 88; 73; 84]%N. (* "EXIT" *)

(* GrandState::enter_subshell / TrapSet::enter_subshell as seen from outside *)
Definition enter_trap (k : kind) (t : trap) : trap :=
  let async_ignored :=
    match k with
    | KAsync => str_eqb (t_cond t) sigint || str_eqb (t_cond t) sigquit
    | _ => false
    end in
  if async_ignored then mkTrap (t_cond t) AIgnore [] 1
  else
    match t_action t with
    | ACommand => mkTrap (t_cond t) ADefault [] 0
    | AIgnore => mkTrap (t_cond t) AIgnore [] (t_disp t)
    | ADefault => t
    end.

(* which descriptors the subshell kind rewires before the body runs *)
Definition rewired (k : kind) (fd : N) : bool :=
  match k with
  | KParen => false
  | KCmdSubst | KPipeFirst => N.eqb fd 1
  | KPipeLast | KAsync => N.eqb fd 0
  | KPipeMiddle => N.eqb fd 0 || N.eqb fd 1
  end.

(* The descriptors a subshell must inherit unchanged: every descriptor the user
   opened — below 10, or at 10 and above without close-on-exec (e.g. `exec
   20>file`) — that the subshell kind does not rewire.  Descriptors at 10 and
   above WITH close-on-exec are the shell's own and may differ. *)
Definition user_fds (k : kind) (fds : list (N * (N * bool))) : list (N * (N * bool)) :=
  filter (fun e => (N.ltb (fst e) 10 || negb (snd (snd e))) && negb (rewired k (fst e))) fds.

(* the view a subshell of kind [k] has on entry, given the parent's state *)
Definition enter_view (k : kind) (p : snap) : snap :=
  mkSnap (s_vars p) (s_pos p) (s_funs p) (s_aliases p) (s_opts p) (s_cwd p) (s_umask p)
         (map (enter_trap k) (s_traps p))
         (user_fds k (s_fds p)).
