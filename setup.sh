#!/bin/sh
# Run once after a fresh restore (offline): full Coq build (never -vos) and
# first build of all harness binaries against /repo's working tree.
# Failures here are not fatal: every check rebuilds what it needs and reports a
# broken obligation itself; this script only warms the caches.
cd "$(dirname "$0")"
export CARGO_NET_OFFLINE=true
export CARGO_TARGET_DIR="$PWD/.cache/target"
mkdir -p .cache
python3 tools/gen_tables.py || echo "WARNING: a translator failed"
( cd coq && { echo "-Q . Yv"; find . -name '*.v' | sed 's|^\./||' | sort; } > _CoqProject \
  && coq_makefile -f _CoqProject -o Makefile.coq \
  && timeout 7200 make -k -f Makefile.coq -j16 ) || echo "WARNING: some Coq file did not build"
cp /repo/Cargo.lock harness/Cargo.lock
( cd harness && timeout 3600 cargo build --offline --bins --keep-going ) || echo "WARNING: some harness binary did not build"
echo setup done
exit 0
