#!/bin/sh
# Run once after a fresh restore (offline): full Coq build (never -vos) and
# first build of all harness binaries against /repo's working tree.
set -e
cd "$(dirname "$0")"
export CARGO_NET_OFFLINE=true
export CARGO_TARGET_DIR="$PWD/.cache/target"
mkdir -p .cache
python3 tools/gen_tables.py || true
( cd coq && { echo "-Q . Yv"; find . -name '*.v' | sed 's|^\./||' | sort; } > _CoqProject \
  && coq_makefile -f _CoqProject -o Makefile.coq \
  && timeout 7200 make -f Makefile.coq -j16 )
cp /repo/Cargo.lock harness/Cargo.lock
( cd harness && timeout 3600 cargo build --offline --bins )
echo setup done
